"""extract_task: translate the CORE OF task.py - the four relation setters of `Task` and their helpers -

  _to_list(val)                       key to_list            _find_root(task)                    key find_root
  _collect_subtree(task)              key collect_subtree    _has_id_intersection(parent, chs)   key has_id_intersection
  _linked_with_any(tasks, others)     key linked_with_any    _unique_objects(tasks)              key unique_objects
  _check_not_none(obj, name)          key check_not_none     _check_no_nones_in_list(lst, name)  key check_no_nones_in_list
  Task._attach / _raw_parent / _detach                       keys Task_attach / Task_raw_parent / Task_detach
  the `parent` property: getter / setter                     keys Task_parent_get / Task_parent_set
  Task.__get_all_parents  + its generator `get_parent`       keys Task_get_all_parents / Task_get_all_parents_get_parent
  the `children` setter                                      key Task_children_set
  Task.__get_all_children + its generator `get_children`     keys Task_get_all_children / Task_get_all_children_get_children
  the `predecessors` / `successors` setters                  keys Task_predecessors_set / Task_successors_set
  Task.__get_all_predecessors / __get_all_successors + their generators
                                                             keys Task_get_all_predecessors(_get_predecessor), ...
  _ChildrenList.append(self, task)                           key ChildrenList_append (parameters: the task that owns
                                                             the facade, task)

into terms of PyLite (lean/PjVerif/Model/PyLite.lean, pass layer `Expr.evalP` / `Stmt.execP` / `callP`, "task
constructs", run as a PROGRAM by `progH`).  Same conventions as the other translators: terms are s-expressions,
anything outside the subset raises Miss - the translator never guesses.

Objects.  Every object reference of the store is an instance of `Task` (the class has no subclass handling in the
translated code: `type(val) is Task`); the translator checks that `Task` defines none of `__eq__`, `__hash__`,
`__bool__`, `__len__`, `__iter__`, `__contains__`, `__getattr__`, `__getattribute__`, `__setattr__` (so `==` / `in` /
`list.remove` on tasks is identity, a task is truthy, attributes are plain).  A method is a function whose first
parameter is `self` (a variable like any other).  A WBS object only occurs as the value of the attribute `wbs`
(`__wbs`), of a parameter annotated 'WBS', in `is None` / `is not None` / `!=` / `==` tests, as the argument of
`_attach` and as the receiver of `._root()` (primitive "_root": the hidden root task of that WBS - the Lean side gives
it the meaning of the encoding).

Attributes.  `e.__f` inside `class Task` (also inside the functions nested in its methods: name mangling) is the raw
field `f` of {id, parent, children, predecessors, successors, wbs}: ["attr", e, f].  A public attribute `e.f` is resolved
through the property of `Task` with that name:
  * `return self.__g`                                           the raw field g
  * `return _ChildrenList(self, self.__g, ...)` / `_PredecessorsList(self, self.__g)` / `_SuccessorsList(self, self.__g)`
                                                                the raw field g: a facade is the list it wraps as long
                                                                as the code only iterates it, tests membership or wraps
                                                                it in `list(...)` (checked: `_ImmutableTaskList.__iter__`
                                                                is `iter(self._list)`, no `__contains__`); the one method
                                                                call accepted on a facade is `<e>.children.append(x)` =
                                                                ["callFn", ChildrenList_append, [e, x]]
  * `return _ImmutableTaskList(self.__m())`                     the call of the method m (a new list)
  * anything else (the `parent` getter)                         the call of the getter
An assignment `e.f = v` to a property with a setter is the call of the setter, `e.__f = v` is ["setAttr", e, f, v].

Calls.  ["callFn", k, args] (k = the position in FUNS; the arguments are values, lists too): module-level functions,
methods (`e.m(a)` = m(e, a)), getters / setters, generators; a function calls itself in the same way (the runner
`progH` bounds the depth of nested calls).  A parameter
that the body only uses inside the arguments of `raise RuntimeError(...)` (the `name` of `_check_not_none`) is dropped,
with the constant passed for it.

Generators.  A function nested in a method whose body uses `yield` / `yield from` is translated as the function that
RETURNS THE LIST of the values it yields: `<acc> = []` first, `yield e` = `<acc> += [e]`, `yield from g(x)` =
`<acc> += g(x)`, `return <acc>` last (<acc> = GEN_ACC, a name that does not occur in the module).  This is what the
consumer sees provided that nobody changes the store while the generator is suspended: the translator checks that
generators (and all they call) write no attribute and that the generator is consumed either by a comprehension
`[.. for t in g(x)]` whose element / condition write nothing, by `yield from`, or as the argument of a function that
writes nothing.

Lists and sets.
  * a list held by an attribute is changed in place by ["attrAppend", e, f, x] / ["attrRemove", e, f, x] /
    ["attrClear", e, f] (`e.__f.append(x)` ...): every list attribute of a task holds its own list object (checked:
    the attributes are only ever assigned `[]`, a comprehension or - in `__set_children`, used by the facades only -
    the list the facade already wraps), and a `for` / comprehension over an attribute `f` is only accepted when its
    body (and all it calls) writes no attribute named `f`.
  * local lists are immutable VALUES.  `x.append(e)` / `x += l` on a local `x` is `x = x + [e]` / `x = x + l`
    (["aug", x, "add", ...]): accepted only if `x` is FRESH - every plain assignment to `x` in the function is a list
    display or a comprehension - and `x` is never copied (`y = x`), stored in an attribute, or changed while a loop
    iterates it.
  * `s = set()` with only `s.add(e)`, `e in s`, `e not in s`: the list of the items added (with repetitions).
    `set(l)` anywhere else is ["setOf", l] - the items without repetitions - and a variable assigned from it may only
    occur in `len(v)`, `e in v`, `v.intersection(w)` (["setInter", v, w]).
  * ["typeIs", e, T] for `type(e) is T` (T in Task / list / tuple / set) and `isinstance(e, Iterable)` (T = Iterable).
  * EMPTY_TASK_ID (= `sys.maxsize`, checked) is the number 2**63 - 1: 64-bit CPython, as in Model/Graph.lean.
`raise RuntimeError(...)`: ["raiseRuntime"]; the arguments may be string / number constants, f-strings, variables,
`<variable>.id`, `type(<variable>)` - their evaluation cannot raise when the variable holds a task."""
import ast

from extract_calendar import Miss, miss, is_none, strip_docstring, lean_str, CMP

MODULE_FUNS = {'_to_list': 'to_list', '_find_root': 'find_root', '_collect_subtree': 'collect_subtree',
               '_has_id_intersection': 'has_id_intersection', '_linked_with_any': 'linked_with_any',
               '_unique_objects': 'unique_objects', '_check_not_none': 'check_not_none',
               '_check_no_nones_in_list': 'check_no_nones_in_list'}
METHODS = {'_attach': 'Task_attach', '_raw_parent': 'Task_raw_parent', '_detach': 'Task_detach',
           '__get_all_parents': 'Task_get_all_parents', '__get_all_children': 'Task_get_all_children',
           '__get_all_predecessors': 'Task_get_all_predecessors', '__get_all_successors': 'Task_get_all_successors'}
GENERATORS = {'Task_get_all_parents': 'get_parent', 'Task_get_all_children': 'get_children',
              'Task_get_all_predecessors': 'get_predecessor', 'Task_get_all_successors': 'get_successor'}
SETTERS = ['parent', 'children', 'predecessors', 'successors']
GETTERS = ['parent']
FUNS = ['to_list', 'find_root', 'collect_subtree', 'has_id_intersection', 'linked_with_any', 'unique_objects',
        'check_not_none', 'check_no_nones_in_list',
        'Task_attach', 'Task_raw_parent', 'Task_detach', 'Task_parent_get', 'Task_parent_set',
        'Task_get_all_parents', 'Task_get_all_parents_get_parent',
        'Task_children_set', 'Task_get_all_children', 'Task_get_all_children_get_children',
        'Task_predecessors_set', 'Task_get_all_predecessors', 'Task_get_all_predecessors_get_predecessor',
        'Task_successors_set', 'Task_get_all_successors', 'Task_get_all_successors_get_successor',
        'ChildrenList_append']
RAW_FIELDS = {'id', 'parent', 'children', 'predecessors', 'successors', 'wbs'}
LIST_FIELDS = {'children', 'predecessors', 'successors'}
FACADES = {'_ChildrenList', '_PredecessorsList', '_SuccessorsList'}
IMMUTABLE = '_ImmutableTaskList'
TASK = 'Task'
WBS = 'WBS'
GEN_ACC = '_yielded'
FACADE_OWNER = '_facade_parent'
EMPTY_ID = 'EMPTY_TASK_ID'
EMPTY_ID_VALUE = str(2 ** 63 - 1)
TYPE_NAMES = {'Task', 'list', 'tuple', 'set'}
BUILTINS = {'len', 'id', 'set', 'list', 'type', 'isinstance', 'RuntimeError', 'Iterable', 'Task'}
FORBIDDEN_DUNDERS = {'__eq__', '__ne__', '__hash__', '__bool__', '__len__', '__iter__', '__contains__', '__getattr__',
                     '__getattribute__', '__setattr__', '__delattr__'}


def field_of(attr):
    """the raw field a private attribute name `__f` denotes, else None"""
    if attr.startswith('__') and not attr.endswith('__') and attr[2:] in RAW_FIELDS:
        return attr[2:]
    return None


class Info:
    """what the translator needs to know about the module"""

    def __init__(self, tree):
        self.tree = tree
        cls = [c for c in tree.body if isinstance(c, ast.ClassDef) and c.name == TASK]
        if len(cls) != 1 or cls[0].bases or cls[0].keywords or cls[0].decorator_list:
            raise Miss('class Task')
        self.task = cls[0]
        for n in ast.walk(tree):
            if n is not self.task and isinstance(n, ast.ClassDef) and n.name == TASK:
                raise Miss('class Task is defined twice')
            if isinstance(n, ast.ClassDef) and any(isinstance(b, ast.Name) and b.id == TASK for b in n.bases):
                raise Miss('a subclass of Task')
        self.props = {}       # public name -> ('field', f) | ('call', key)
        self.getters = {}
        self.setters = {}
        self.methods = {}
        for f in self.task.body:
            if isinstance(f, (ast.AsyncFunctionDef, ast.ClassDef)):
                raise Miss(f'Task.{f.name}')
            if not isinstance(f, ast.FunctionDef):
                continue
            if f.name in FORBIDDEN_DUNDERS:
                raise Miss(f'Task defines {f.name}')
            decos = [ast.unparse(d) for d in f.decorator_list]
            if decos == ['property']:
                if f.name in self.getters:
                    raise Miss(f'property {f.name} twice')
                self.getters[f.name] = f
            elif len(decos) == 1 and decos[0].endswith('.setter') and decos[0][:-7] == f.name:
                if f.name in self.setters:
                    raise Miss(f'setter {f.name} twice')
                self.setters[f.name] = f
            elif not decos:
                if f.name in self.methods:
                    raise Miss(f'method {f.name} twice')
                self.methods[f.name] = f
            else:
                raise Miss(f'Task.{f.name}: decorators')
        for name in set(self.getters) & set(self.methods):
            raise Miss(f'{name}: property and method')
        for name in self.setters:
            if name not in self.getters:
                raise Miss(f'{name}: setter without getter')
        for name, f in self.getters.items():
            self.props[name] = self.classify_getter(name, f)

    def classify_getter(self, name, f):
        a = f.args
        if len(a.args) != 1 or a.vararg or a.kwarg or a.kwonlyargs or a.posonlyargs or a.defaults:
            raise Miss(f'getter {name}: signature')
        me = a.args[0].arg
        body = strip_docstring(f.body)
        if len(body) == 1 and isinstance(body[0], ast.Return) and body[0].value is not None:
            v = body[0].value
            fld = self.self_field(v, me)
            if fld is not None:
                return ('field', fld)
            if isinstance(v, ast.Call) and isinstance(v.func, ast.Name) and not v.keywords:
                if v.func.id in FACADES and len(v.args) >= 2 and isinstance(v.args[0], ast.Name) \
                        and v.args[0].id == me and self.self_field(v.args[1], me) in LIST_FIELDS:
                    for x in v.args[2:]:
                        # further arguments (`self.__set_children`) are not used by `append`
                        if not (isinstance(x, ast.Attribute) and isinstance(x.value, ast.Name) and x.value.id == me):
                            raise Miss(f'getter {name}: facade arguments')
                    return ('facade', self.self_field(v.args[1], me), v.func.id)
                if v.func.id == IMMUTABLE and len(v.args) == 1:
                    c = v.args[0]
                    if isinstance(c, ast.Call) and not c.args and not c.keywords and isinstance(c.func, ast.Attribute) \
                            and isinstance(c.func.value, ast.Name) and c.func.value.id == me and c.func.attr in METHODS:
                        return ('call', METHODS[c.func.attr])
        if name in GETTERS:
            return ('call', f'Task_{name}_get')
        return ('other',)

    @staticmethod
    def self_field(n, me):
        if isinstance(n, ast.Attribute) and isinstance(n.value, ast.Name) and n.value.id == me:
            return field_of(n.attr)
        return None


class Fn:
    """one function of the table"""

    def __init__(self, key, node, origin, in_task, generator=False, facade=False, nested=None):
        self.key = key
        self.node = node
        self.origin = origin
        self.in_task = in_task          # private attribute names are mangled to Task's fields
        self.generator = generator
        self.facade = facade            # `_ChildrenList.append`: `self.__parent` is the owner of the facade
        self.nested = nested or {}      # local name of a nested generator -> key
        a = node.args
        if a.vararg or a.kwarg or a.kwonlyargs or a.posonlyargs or a.defaults:
            raise Miss(f'{origin}: signature')
        self.all_params = [x.arg for x in a.args]
        if len(set(self.all_params)) != len(self.all_params):
            raise Miss(f'{origin}: parameters')
        self.wbs_params = {x.arg for x in a.args if ann_is(x.annotation, WBS)}
        self.dropped = set()            # message-only parameters
        self.params = list(self.all_params)
        self.body = None
        self.writes = set()             # fields written directly
        self.calls = set()              # keys called directly
        self.constraints = []           # (what, field or None, direct writes, callees): must not write the field / anything


def ann_is(n, name):
    if n is None:
        return False
    if isinstance(n, ast.Constant) and n.value == name:
        return True
    return isinstance(n, ast.Name) and n.id == name


class Tr:
    def __init__(self, info, fns, fn):
        self.info = info
        self.fns = fns                  # key -> Fn
        self.fn = fn
        self.known = set(fn.params)     # readable names
        self.wbs_vars = set(fn.wbs_params)
        self.scoped = []                # comprehension variables in scope
        self.fresh = set()              # locals that only hold new lists (display / comprehension)
        self.addsets = set()            # `s = set()`: the list of the items added
        self.setvals = set()            # `v = set(l)`: a set value
        self.loop_vars = []             # variables iterated by the enclosing `for` statements
        self.effects = [(set(), set())]  # stack of (writes, calls) collectors
        self.assigned_params = set()    # parameters that were reassigned (the result of a call)
        self.classify_locals()

    # ---- bookkeeping
    def note_write(self, f):
        for w, _ in self.effects:
            w.add(f)

    def note_call(self, k):
        for _, c in self.effects:
            c.add(k)

    def collect(self):
        self.effects.append((set(), set()))

    def collected(self):
        return self.effects.pop()

    def classify_locals(self):
        """which locals are fresh lists / add-only sets / set values: decided from ALL assignments of the function"""
        fn = self.fn.node
        assigns = {}
        for n in ast.walk(fn):
            if isinstance(n, (ast.FunctionDef, ast.Lambda)) and n is not fn and self.fn.key not in GENERATORS:
                raise Miss(f'{self.fn.origin}: nested scope')
            if isinstance(n, ast.Assign):
                for t in n.targets:
                    if isinstance(t, ast.Name):
                        assigns.setdefault(t.id, []).append(n.value)
            elif isinstance(n, ast.AnnAssign) and isinstance(n.target, ast.Name) and n.value is not None:
                assigns.setdefault(n.target.id, []).append(n.value)
            elif isinstance(n, (ast.Global, ast.Nonlocal, ast.Lambda, ast.Try, ast.With, ast.While, ast.Delete,
                                ast.NamedExpr, ast.Await, ast.AsyncFor, ast.AsyncWith, ast.Starred)):
                raise Miss(f'{self.fn.origin}: {type(n).__name__}')
        for x, vals in assigns.items():
            if x in self.fn.all_params:
                continue
            if all(isinstance(v, (ast.List, ast.ListComp)) for v in vals):
                self.fresh.add(x)
            elif all(self.is_builtin_call(v, 'set', (0,)) for v in vals):
                self.addsets.add(x)
            elif all(self.is_builtin_call(v, 'set', (1,)) for v in vals):
                self.setvals.add(x)

    def is_builtin_call(self, n, name, nargs):
        return isinstance(n, ast.Call) and isinstance(n.func, ast.Name) and n.func.id == name and not n.keywords \
            and len(n.args) in nargs

    def arg_list(self, items):
        e = ['listNil']
        for x in reversed(items):
            e = ['listCons', x, e]
        return e

    def call(self, key, args):
        self.note_call(key)
        return ['callFn', FUNS.index(key), self.arg_list(args)]

    # ---- kinds
    def is_wbs(self, n):
        """syntactically a WBS value"""
        if isinstance(n, ast.Name):
            return n.id in self.wbs_vars
        if isinstance(n, ast.Attribute) and isinstance(n.ctx, ast.Load):
            if self.fn.in_task and field_of(n.attr) == 'wbs':
                return True
            if not n.attr.startswith('__') and self.info.props.get(n.attr) == ('field', 'wbs'):
                return True
        return False

    def plain_var(self, n):
        return isinstance(n, ast.Name) and isinstance(n.ctx, ast.Load) and n.id in self.known \
            and n.id not in self.wbs_vars

    # ---- expressions
    def cond(self, n):
        return self.expr(n)

    def receiver(self, n):
        """an expression whose attributes are read: a variable or a raw task-valued field of one"""
        if self.is_wbs(n):
            miss(n, 'attribute of a WBS object')
        if isinstance(n, ast.Name):
            return self.expr(n)
        if isinstance(n, ast.Attribute) and self.fn.in_task and field_of(n.attr) == 'parent':
            return self.expr(n)
        if self.fn.facade and self.is_facade_owner(n):
            return self.expr(n)
        if self.is_root_call(n):
            return self.expr(n)
        miss(n, 'receiver')

    def is_facade_owner(self, n):
        return isinstance(n, ast.Attribute) and n.attr == '__parent' and isinstance(n.value, ast.Name) \
            and n.value.id == self.fn.all_params[0]

    def is_root_call(self, n):
        return isinstance(n, ast.Call) and not n.args and not n.keywords and isinstance(n.func, ast.Attribute) \
            and n.func.attr == '_root' and self.is_wbs(n.func.value)

    def attribute(self, n):
        if self.fn.facade:
            if self.is_facade_owner(n):
                return ['var', FACADE_OWNER]
            miss(n, 'attribute of a facade')
        e = self.receiver(n.value)
        if n.attr.startswith('__') and not n.attr.endswith('__'):
            f = field_of(n.attr)
            if not self.fn.in_task or f is None:
                miss(n, 'private attribute')
            return ['attr', e, f]
        p = self.info.props.get(n.attr)
        if p is None:
            miss(n, 'attribute')
        if p[0] == 'field':
            return ['attr', e, p[1]]
        if p[0] == 'facade':
            return ['attr', e, p[1]]        # the uses of the value are restricted by the callers (`iterable`, `in`)
        if p[0] == 'call':
            return self.call(p[1], [e])
        miss(n, 'property')

    def facade_attr(self, n):
        """`e.<facade property>`: the field, else None"""
        if isinstance(n, ast.Attribute) and isinstance(n.ctx, ast.Load) and not n.attr.startswith('__'):
            p = self.info.props.get(n.attr)
            if p is not None and p[0] == 'facade':
                return p[1]
        return None

    def list_field(self, n):
        """`e.__f` / `e.<facade>` with f a list field: f, else None"""
        if isinstance(n, ast.Attribute) and isinstance(n.ctx, ast.Load):
            if self.fn.in_task and field_of(n.attr) in LIST_FIELDS:
                return field_of(n.attr)
            return self.facade_attr(n)
        return None

    def generator_call(self, n):
        """the key of the generator `n` calls, else None"""
        if isinstance(n, ast.Call) and isinstance(n.func, ast.Name) and n.func.id in self.fn.nested \
                and n.func.id not in self.known:
            return self.fn.nested[n.func.id]
        return None

    def expr(self, n, ok_facade=False, ok_generator=False):
        if isinstance(n, ast.Constant):
            v = n.value
            if v is None:
                return ['none']
            if isinstance(v, bool):
                return ['bool', v]
            if type(v) is int:
                return ['num', str(v)]
            miss(n, 'constant')
        if isinstance(n, ast.Name) and isinstance(n.ctx, ast.Load):
            if n.id == EMPTY_ID and n.id not in self.known:
                return ['num', EMPTY_ID_VALUE]
            if n.id not in self.known:
                miss(n, 'unknown name')
            return ['var', n.id]
        if isinstance(n, ast.Attribute) and isinstance(n.ctx, ast.Load):
            if self.facade_attr(n) is not None and not ok_facade:
                miss(n, 'a facade may only be iterated, tested for membership or wrapped in list()')
            return self.attribute(n)
        if isinstance(n, ast.Compare):
            if len(n.ops) != 1:
                miss(n, 'comparison chain')
            l, op, r = n.left, n.ops[0], n.comparators[0]
            if isinstance(op, (ast.Is, ast.IsNot)):
                if is_none(r):
                    return ['isNone' if isinstance(op, ast.Is) else 'isNotNone', self.expr(l)]
                if isinstance(op, ast.Is) and self.is_builtin_call(l, 'type', (1,)) and isinstance(r, ast.Name) \
                        and r.id in TYPE_NAMES and r.id not in self.known and 'type' not in self.known:
                    return ['typeIs', self.expr(l.args[0]), r.id]
                if self.is_wbs(l) or self.is_wbs(r):
                    miss(n, '`is` on a WBS')
                e = ['isSame', self.expr(l), self.expr(r)]
                return e if isinstance(op, ast.Is) else ['not', e]
            if isinstance(op, (ast.In, ast.NotIn)):
                if isinstance(r, ast.Name) and (r.id in self.addsets or r.id in self.setvals):
                    e = ['isIn', self.expr(l), ['var', r.id]]
                else:
                    e = ['isIn', self.expr(l), self.expr(r, ok_facade=True)]
                return e if isinstance(op, ast.In) else ['not', e]
            if type(op) in CMP:
                if self.is_wbs(l) != self.is_wbs(r):
                    miss(n, 'comparison of a WBS with something else')
                if self.is_wbs(l) and not isinstance(op, (ast.Eq, ast.NotEq)):
                    miss(n, 'ordering of WBS objects')
                return ['cmp', CMP[type(op)], self.expr(l), self.expr(r)]
            miss(n, 'comparison')
        if isinstance(n, ast.BoolOp):
            k = 'and' if isinstance(n.op, ast.And) else 'or'
            vals = [self.cond(v) for v in n.values]
            e = vals[-1]
            for v in reversed(vals[:-1]):
                e = [k, v, e]
            return e
        if isinstance(n, ast.UnaryOp) and isinstance(n.op, ast.Not):
            return ['not', self.cond(n.operand)]
        if isinstance(n, ast.BinOp) and isinstance(n.op, ast.Add):
            return ['bin', 'add', self.expr(n.left), self.expr(n.right)]
        if isinstance(n, ast.List) and isinstance(n.ctx, ast.Load):
            return self.arg_list([self.expr(x) for x in n.elts])
        if isinstance(n, ast.ListComp):
            return self.list_comp(n)
        if isinstance(n, ast.Call):
            return self.call_expr(n, ok_generator)
        miss(n, 'expression')

    def call_expr(self, n, ok_generator):
        if n.keywords or any(isinstance(x, ast.Starred) for x in n.args):
            miss(n, 'call')
        f = n.func
        if isinstance(f, ast.Name) and f.id not in self.known:
            name = f.id
            if name == 'len' and len(n.args) == 1:
                a = n.args[0]
                if isinstance(a, ast.Name) and a.id in self.addsets:
                    miss(n, 'len of a set under construction')
                return ['len', self.expr(a)]
            if name == 'id' and len(n.args) == 1:
                if self.is_wbs(n.args[0]):
                    miss(n, 'id of a WBS')
                return ['idOf', self.expr(n.args[0])]
            if name == 'list' and len(n.args) == 1:
                return ['listOf', self.expr(n.args[0], ok_facade=True)]
            if name == 'set' and len(n.args) == 1:
                return ['setOf', self.expr(n.args[0])]
            if name == 'isinstance' and len(n.args) == 2 and isinstance(n.args[1], ast.Name) \
                    and n.args[1].id == 'Iterable' and 'Iterable' not in self.known:
                return ['typeIs', self.expr(n.args[0]), 'Iterable']
            if name in MODULE_FUNS:
                return self.call_fun(MODULE_FUNS[name], None, n.args, n)
            g = self.generator_call(n)
            if g is not None:
                if not ok_generator:
                    miss(n, 'a generator may only be consumed by a comprehension, `yield from` or a function argument')
                return self.call_fun(g, None, n.args, n)
            miss(n, f'call of {name}')
        if isinstance(f, ast.Attribute):
            if self.is_root_call(n):
                return ['prim', '_root', self.arg_list([self.expr(f.value)])]
            if f.attr == 'intersection' and len(n.args) == 1 and isinstance(f.value, ast.Name) \
                    and isinstance(n.args[0], ast.Name) and f.value.id in self.setvals and n.args[0].id in self.setvals:
                return ['setInter', ['var', f.value.id], ['var', n.args[0].id]]
            if f.attr in METHODS and not self.is_wbs(f.value):
                if f.attr.startswith('__') and not self.fn.in_task:
                    miss(n, 'private method')
                return self.call_fun(METHODS[f.attr], f.value, n.args, n)
        miss(n, 'call')

    def call_fun(self, key, recv, args, n):
        callee = self.fns[key]
        want = callee.all_params[1:] if recv is not None else callee.all_params
        if recv is not None and callee.node.args.args[0].arg != callee.all_params[0]:
            miss(n, 'method')
        if len(args) != len(want):
            miss(n, f'arguments of {callee.origin}')
        out = [self.receiver(recv)] if recv is not None else []
        for p, x in zip(want, args):
            if p in callee.dropped:
                if not (isinstance(x, ast.Constant) and isinstance(x.value, str)):
                    miss(x, 'argument for a message parameter')
                continue
            if p in callee.wbs_params:
                if not self.is_wbs(x):
                    miss(x, 'WBS argument')
            elif self.is_wbs(x):
                miss(x, 'a WBS passed for a non-WBS parameter')
            g = self.generator_call(x)
            if g is not None:
                # a generator as an argument: the callee (and the generator) must not write anything
                self.fn.constraints.append(('generator argument', None, set(), {key, g}))
                out.append(self.expr(x, ok_generator=True))
            else:
                out.append(self.expr(x))
        return self.call(key, out)

    def iterable(self, n, body_effects, what):
        """the iterable of a `for` / comprehension; `body_effects` = (writes, calls) of the body"""
        f = self.list_field(n)
        if f is not None:
            self.fn.constraints.append((what, f, body_effects[0], body_effects[1]))
            return self.expr(n, ok_facade=True)
        g = self.generator_call(n)
        if g is not None:
            self.fn.constraints.append((what + ' over a generator', None, body_effects[0], body_effects[1] | {g}))
            return self.expr(n, ok_generator=True)
        if isinstance(n, ast.Name) and (n.id in self.addsets or n.id in self.setvals):
            miss(n, 'iteration over a set')
        return self.expr(n)

    def list_comp(self, n):
        if len(n.generators) != 1:
            miss(n, 'comprehension')
        g = n.generators[0]
        if g.is_async or not isinstance(g.target, ast.Name):
            miss(n, 'comprehension')
        x = g.target.id
        if x in self.scoped or x in BUILTINS or x in MODULE_FUNS or x in self.fn.nested or x == EMPTY_ID \
                or x in self.wbs_vars or x in self.addsets or x in self.setvals:
            miss(n, 'comprehension variable')
        saved = set(self.known)
        self.known = self.known | {x}
        self.scoped.append(x)
        self.collect()
        try:
            conds = [self.cond(c) for c in g.ifs] or [['bool', True]]
            c = conds[-1]
            for v in reversed(conds[:-1]):
                c = ['and', v, c]
            elt = self.expr(n.elt)
        finally:
            eff = self.collected()
            self.scoped.pop()
            self.known = saved
        it = self.iterable(g.iter, eff, 'comprehension')     # evaluated in the enclosing scope
        return ['listComp', elt, x, it, c]

    # ---- raise
    def harmless(self, n):
        if isinstance(n, ast.Constant) and isinstance(n.value, (str, int)):
            return True
        if isinstance(n, ast.Name):
            return n.id in self.known or n.id in self.fn.dropped
        if isinstance(n, ast.Attribute) and isinstance(n.value, ast.Name) and n.attr == 'id' \
                and self.info.props.get('id') == ('field', 'id'):
            return n.value.id in self.known and n.value.id not in self.wbs_vars
        if isinstance(n, ast.JoinedStr):
            return all(self.harmless(v) for v in n.values)
        if isinstance(n, ast.FormattedValue):
            return n.conversion == -1 and n.format_spec is None and self.harmless(n.value)
        if self.is_builtin_call(n, 'type', (1,)) and 'type' not in self.known:
            return isinstance(n.args[0], ast.Name) and n.args[0].id in self.known
        return False

    # ---- statements
    def new_local(self, x, node):
        if (x in self.fn.all_params and (x == self.fn.all_params[0] and self.fn.in_task or x in self.wbs_vars
                                         or x in self.fn.dropped or self.fn.facade)) \
                or x in self.scoped or x in BUILTINS or x in MODULE_FUNS or x in self.fn.nested \
                or x == EMPTY_ID or x in (GEN_ACC, FACADE_OWNER) or x in self.loop_vars:
            miss(node, f'assignment to {x}')

    def param_annotation(self, p):
        for a in self.fn.node.args.args:
            if a.arg == p:
                return a.annotation
        return None

    def block(self, stmts):
        out = []
        for s in stmts:
            out.extend(self.stmt(s))
        return out

    def mutable_local(self, x, node):
        """`x` may be changed in place: a fresh local list that no enclosing loop iterates"""
        if x not in self.fresh or x not in self.known or x in self.loop_vars_iterated():
            miss(node, f'in-place change of {x}')

    def loop_vars_iterated(self):
        return self.iterated

    iterated = ()

    def stmt(self, s):
        if isinstance(s, ast.Expr) and isinstance(s.value, ast.Constant) and isinstance(s.value.value, str):
            return []                                   # a docstring / string statement
        if isinstance(s, (ast.Assign, ast.AnnAssign)):
            if isinstance(s, ast.Assign):
                if len(s.targets) != 1:
                    miss(s, 'chained assignment')
                t, v = s.targets[0], s.value
            else:
                if s.value is None or not s.simple:
                    miss(s, 'annotated assignment')
                t, v = s.target, s.value
            if isinstance(t, ast.Name):
                x = t.id
                self.new_local(x, s)
                if x in self.iterated:
                    miss(s, f'{x} is assigned while a loop iterates it')
                if x in self.addsets:
                    e = ['listNil']
                elif x in self.setvals:
                    e = ['setOf', self.expr(v.args[0])]
                elif x in self.fresh:
                    e = self.expr(v)
                else:
                    if isinstance(v, ast.Name):
                        miss(s, 'copy of a variable (it could hold a list)')
                    if self.is_wbs(v):
                        miss(s, 'a WBS in a local variable')
                    if self.list_field(v) is not None:
                        miss(s, 'a list attribute in a local variable')
                    e = self.expr(v)
                self.known.add(x)
                if x in self.fn.all_params:
                    if not isinstance(v, ast.Call):
                        miss(s, 'a parameter may only be reassigned the result of a call')
                    self.assigned_params.add(x)
                return [['assign', x, e]]
            if isinstance(t, ast.Attribute) and isinstance(t.ctx, ast.Store):
                return [self.attr_assign(t, v, s)]
            miss(s, 'assignment target')
        if isinstance(s, ast.AugAssign):
            if isinstance(s.target, ast.Name) and isinstance(s.op, ast.Add):
                x = s.target.id
                self.mutable_local(x, s)
                g = self.generator_call(s.value)
                if g is not None:
                    miss(s, 'generator')
                v = s.value
                if isinstance(v, ast.Name) and v.id == x:
                    miss(s, 'x += x')
                return [['aug', x, 'add', self.expr(v)]]
            miss(s, 'augmented assignment')
        if isinstance(s, ast.If):
            c = self.cond(s.test)
            saved = set(self.known)
            t = self.block(s.body)
            k1 = self.known
            self.known = set(saved)
            e = self.block(s.orelse)
            # a name bound in one branch only may be unbound afterwards: PyLite is then stuck, so this is safe
            self.known = k1 | self.known
            return [['ifElse', c, t, e]]
        if isinstance(s, ast.For):
            if s.orelse or not (isinstance(s.target, ast.Name) and isinstance(s.target.ctx, ast.Store)):
                miss(s, 'for')
            x = s.target.id
            self.new_local(x, s)
            if x in self.fresh or x in self.addsets or x in self.setvals or x in self.wbs_vars:
                miss(s, 'for target')
            saved_iter = self.iterated
            if isinstance(s.iter, ast.Name):
                self.iterated = tuple(self.iterated) + (s.iter.id,)
            self.known.add(x)
            self.loop_vars.append(x)
            self.collect()
            try:
                body = self.block(s.body)
            finally:
                eff = self.collected()
                self.loop_vars.pop()
                self.iterated = saved_iter
            it = self.iterable(s.iter, eff, 'for')
            return [['forIn', x, it, body]]
        if isinstance(s, ast.Return):
            if self.fn.generator:
                if s.value is not None:
                    miss(s, 'return with a value in a generator')
                return [['ret', ['var', GEN_ACC]]]
            if s.value is None:
                return [['ret', ['none']]]
            v = s.value
            if isinstance(v, ast.Name) and (v.id in self.addsets or v.id in self.setvals):
                miss(s, 'a set is returned')
            if self.list_field(v) is not None:
                miss(s, 'a list attribute is returned')
            if isinstance(v, ast.Name) and v.id in self.fn.all_params and v.id not in self.assigned_params \
                    and not ann_is(self.param_annotation(v.id), TASK):
                miss(s, 'a parameter is returned (it could hold a list of the caller)')
            return [['ret', self.expr(v)]]
        if isinstance(s, ast.Raise):
            e = s.exc
            if s.cause is None and isinstance(e, ast.Call) and isinstance(e.func, ast.Name) \
                    and e.func.id == 'RuntimeError' and 'RuntimeError' not in self.known and not e.keywords \
                    and all(self.harmless(a) for a in e.args):
                return [['raiseRuntime']]
            miss(s, 'raise')
        if isinstance(s, ast.Pass):
            return [['pass']]
        if isinstance(s, ast.Continue):
            if not self.loop_vars:
                miss(s, 'continue outside a loop')
            return [['continue']]
        if isinstance(s, ast.Expr):
            return [self.expr_stmt(s.value, s)]
        miss(s, 'statement')

    def attr_assign(self, t, v, s):
        if t.attr.startswith('__') and not t.attr.endswith('__'):
            if self.fn.facade:
                miss(s, 'assignment in a facade')
            f = field_of(t.attr)
            if not self.fn.in_task or f is None or f == 'id':
                miss(s, 'assignment to a private attribute')
            if f == 'wbs':
                if not (self.is_wbs(v) or is_none(v)):
                    miss(s, 'the wbs of a task must be a WBS or None')
            elif self.is_wbs(v):
                miss(s, 'a WBS stored in a task attribute')
            if f in LIST_FIELDS:
                # a list attribute only ever holds a NEW list
                if not isinstance(v, (ast.List, ast.ListComp)):
                    miss(s, 'a list attribute must be assigned a new list')
            elif isinstance(v, ast.Name) and (v.id in self.fresh or v.id in self.addsets or v.id in self.setvals):
                miss(s, 'a list stored in an attribute')
            e = self.expr(v)
            self.note_write(f)
            return ['setAttr', self.receiver(t.value), f, e]
        if t.attr in self.info.setters and t.attr in SETTERS:
            # `o.<property> = v`: the call of the setter; both sides must be plain variables (no evaluation order issue)
            if not self.plain_var(t.value) or not self.setter_value(v):
                miss(s, 'assignment through a property')
            return ['expr', self.call(f'Task_{t.attr}_set', [self.expr(t.value), self.expr(v)])]
        miss(s, 'assignment to an attribute')

    def setter_value(self, v):
        if self.fn.facade and self.is_facade_owner(v):
            return True
        return self.plain_var(v)

    def expr_stmt(self, v, s):
        if isinstance(v, (ast.Yield, ast.YieldFrom)):
            if not self.fn.generator:
                miss(s, 'yield')
            if isinstance(v, ast.Yield):
                if v.value is None:
                    miss(s, 'bare yield')
                return ['aug', GEN_ACC, 'add', self.arg_list([self.expr(v.value)])]
            g = self.generator_call(v.value)
            if g is None:
                miss(s, 'yield from')
            return ['aug', GEN_ACC, 'add', self.expr(v.value, ok_generator=True)]
        if not isinstance(v, ast.Call) or v.keywords or any(isinstance(x, ast.Starred) for x in v.args):
            miss(s, 'expression statement')
        f = v.func
        if isinstance(f, ast.Attribute) and f.attr in ('append', 'add', 'remove', 'clear'):
            o = f.value
            # a fresh local list / an add-only set
            if isinstance(o, ast.Name):
                if f.attr == 'append' and len(v.args) == 1:
                    self.mutable_local(o.id, s)
                    return ['aug', o.id, 'add', self.arg_list([self.expr(v.args[0])])]
                if f.attr == 'add' and len(v.args) == 1 and o.id in self.addsets and o.id in self.known \
                        and o.id not in self.iterated:
                    return ['aug', o.id, 'add', self.arg_list([self.expr(v.args[0])])]
                miss(s, 'method of a local')
            # the raw list of a task: `e.__f.append(x)` ...
            if isinstance(o, ast.Attribute) and self.fn.in_task and field_of(o.attr) in LIST_FIELDS \
                    and not self.fn.facade:
                fld = field_of(o.attr)
                recv = self.receiver(o.value)
                self.note_write(fld)
                if f.attr in ('append', 'remove') and len(v.args) == 1 and self.plain_var(v.args[0]):
                    return ['attrAppend' if f.attr == 'append' else 'attrRemove', recv, fld, self.expr(v.args[0])]
                if f.attr == 'clear' and not v.args:
                    return ['attrClear', recv, fld]
                miss(s, 'list method')
            # `<e>.children.append(x)`: _ChildrenList.append
            if f.attr == 'append' and len(v.args) == 1 and isinstance(o, ast.Attribute) \
                    and self.info.props.get(o.attr, (None,))[0] == 'facade' \
                    and self.info.props[o.attr][2] == '_ChildrenList' and self.plain_var(v.args[0]):
                return ['expr', self.call('ChildrenList_append', [self.receiver(o.value), self.expr(v.args[0])])]
            miss(s, 'method call')
        e = self.call_expr(v, False)
        if e[0] != 'callFn':
            miss(s, 'expression statement')
        return ['expr', e]


def module_function(tree, name):
    found = [f for f in tree.body if isinstance(f, (ast.FunctionDef, ast.AsyncFunctionDef)) and f.name == name]
    if len(found) != 1 or not isinstance(found[0], ast.FunctionDef) or found[0].decorator_list:
        raise Miss(f'{name}: {len(found)} definitions')
    return found[0]


def check_module(tree):
    names = set(MODULE_FUNS) | BUILTINS | {EMPTY_ID, IMMUTABLE} | FACADES
    for n in ast.walk(tree):
        if isinstance(n, ast.Name) and isinstance(n.ctx, (ast.Store, ast.Del)) and n.id in names:
            if not (n.id == EMPTY_ID):
                raise Miss(f'{n.id} is redefined')
        if isinstance(n, (ast.Global, ast.Nonlocal)):
            raise Miss('global / nonlocal')
    for n in tree.body:
        # (a method named like a builtin - the property `id` - does not hide the builtin inside other methods)
        if isinstance(n, (ast.FunctionDef, ast.ClassDef, ast.AsyncFunctionDef)) and n.name in BUILTINS - {TASK}:
            raise Miss(f'{n.name} is redefined')
    # EMPTY_TASK_ID = sys.maxsize, once, at module level
    defs = [n for n in ast.walk(tree) if isinstance(n, ast.Name) and n.id == EMPTY_ID
            and isinstance(n.ctx, (ast.Store, ast.Del))]
    top = [s for s in tree.body if isinstance(s, ast.Assign) and len(s.targets) == 1
           and isinstance(s.targets[0], ast.Name) and s.targets[0].id == EMPTY_ID]
    if len(defs) != 1 or len(top) != 1 or ast.unparse(top[0].value) != 'sys.maxsize':
        raise Miss('EMPTY_TASK_ID = sys.maxsize')
    imported = {}
    for s in tree.body:
        if isinstance(s, ast.Import):
            for a in s.names:
                imported[a.asname or a.name] = a.name
        elif isinstance(s, ast.ImportFrom):
            for a in s.names:
                imported[a.asname or a.name] = f'{s.module}.{a.name}'
    if imported.get('sys') != 'sys' or imported.get('Iterable') != 'typing.Iterable':
        raise Miss('import sys / from typing import Iterable')
    for k in imported:
        if k in names and k != 'Iterable':
            raise Miss(f'{k} is imported')
    for s in ast.walk(tree):
        if isinstance(s, (ast.Import, ast.ImportFrom)) and s not in tree.body:
            raise Miss('nested import')
    for name in set(MODULE_FUNS) | FACADES | {IMMUTABLE, TASK}:
        ds = [n for n in ast.walk(tree) if isinstance(n, (ast.FunctionDef, ast.ClassDef, ast.AsyncFunctionDef))
              and n.name == name]
        if len(ds) != 1 or ds[0] not in tree.body:
            raise Miss(f'{name}: {len(ds)} definitions')
    for n in ast.walk(tree):
        if isinstance(n, ast.arg) and n.arg in (set(MODULE_FUNS) | {EMPTY_ID, 'len', 'set', 'list', 'type', 'isinstance'}):
            raise Miss(f'{n.arg} is a parameter')


def class_of(tree, name):
    return [c for c in tree.body if isinstance(c, ast.ClassDef) and c.name == name][0]


def method(cls, name):
    fs = [f for f in cls.body if isinstance(f, ast.FunctionDef) and f.name == name]
    if len(fs) != 1:
        raise Miss(f'{cls.name}.{name}: {len(fs)} definitions')
    return fs[0]


def check_facades(tree):
    """what the treatment of the list facades relies on"""
    imm = class_of(tree, IMMUTABLE)
    if imm.bases or imm.decorator_list:
        raise Miss(IMMUTABLE)
    init = method(imm, '__init__')
    if ast.unparse(init.args) != "self, _list: List['Task']" or [ast.unparse(s) for s in strip_docstring(init.body)] != \
            ['self._list = _list']:
        raise Miss(f'{IMMUTABLE}.__init__')
    it = method(imm, '__iter__')
    if [ast.unparse(s) for s in strip_docstring(it.body)] != ['return iter(self._list)'] or it.decorator_list:
        raise Miss(f'{IMMUTABLE}.__iter__')
    for f in imm.body:
        if isinstance(f, ast.FunctionDef) and f.name in ('__contains__', '__getattribute__'):
            raise Miss(f'{IMMUTABLE}.{f.name}')
    tl = class_of(tree, '_TaskList')
    if [ast.unparse(b) for b in tl.bases] != [IMMUTABLE, 'ABC']:
        raise Miss('_TaskList: bases')
    init = method(tl, '__init__')
    if [ast.unparse(s) for s in strip_docstring(init.body)] != ['super().__init__(_list)'] \
            or [a.arg for a in init.args.args] != ['self', '_list']:
        raise Miss('_TaskList.__init__')
    for name in FACADES:
        c = class_of(tree, name)
        if [ast.unparse(b) for b in c.bases] != ['_TaskList'] or c.decorator_list:
            raise Miss(f'{name}: bases')
        for f in c.body:
            if isinstance(f, ast.FunctionDef) and f.name in ('__iter__', '__contains__', '__getattribute__', '__getattr__'):
                raise Miss(f'{name}.{f.name}')
        init = method(c, '__init__')
        names = [a.arg for a in init.args.args]
        body = [ast.unparse(s) for s in strip_docstring(init.body)]
        if names[:3] != ['self', 'parent', '_list'] or body[:2] != ['super().__init__(_list)', 'self.__parent = parent'] \
                or init.args.defaults or init.args.vararg or init.args.kwarg:
            raise Miss(f'{name}.__init__')
        for s in ast.walk(c):
            if isinstance(s, ast.Attribute) and s.attr == '__parent' and isinstance(s.ctx, ast.Store) \
                    and s not in ast.walk(init):
                raise Miss(f'{name}: __parent is reassigned')


def check_list_fields(info):
    """every list attribute of a task holds its own list object: it is only assigned a new list (except in
    `__set_children`, which the facades call with the list they already wrap)"""
    for f in info.task.body:
        if not isinstance(f, ast.FunctionDef):
            continue
        for n in ast.walk(f):
            targets = []
            if isinstance(n, ast.Assign):
                targets = [(t, n.value) for t in n.targets]
            elif isinstance(n, (ast.AugAssign, ast.AnnAssign)):
                targets = [(n.target, n.value)]
            for t, v in targets:
                if isinstance(t, ast.Attribute) and field_of(t.attr) in LIST_FIELDS:
                    if isinstance(n, ast.Assign) and isinstance(v, (ast.List, ast.ListComp)):
                        continue
                    if f.name == '__set_children' and ast.unparse(n) == 'self.__children = lst':
                        continue
                    raise Miss(f'Task.{f.name}: {ast.unparse(n)}')
    sc = info.methods.get('__set_children')
    if sc is not None:
        for n in ast.walk(info.task):
            if isinstance(n, ast.Attribute) and n.attr == '__set_children' and isinstance(n.ctx, ast.Load):
                pass    # only passed to the facade (checked by the shape of the `children` getter)
        for f in info.task.body:
            if isinstance(f, ast.FunctionDef):
                for n in ast.walk(f):
                    if isinstance(n, ast.Call) and isinstance(n.func, ast.Attribute) and n.func.attr == '__set_children':
                        raise Miss('__set_children is called inside Task')


def message_only(fn):
    """parameters that only occur inside the arguments of `raise RuntimeError(...)`"""
    inside = set()
    for n in ast.walk(fn.node):
        if isinstance(n, ast.Raise) and n.exc is not None:
            for m in ast.walk(n.exc):
                inside.add(id(m))
    out = set()
    for p in fn.all_params[1:]:
        occ = [n for n in ast.walk(fn.node) if isinstance(n, ast.Name) and n.id == p]
        if occ and all(id(n) in inside for n in occ):
            out.add(p)
    return out


def nested_generator(fn_node, name, origin):
    body = strip_docstring(fn_node.body)
    defs = [s for s in body if isinstance(s, ast.FunctionDef)]
    if len(defs) != 1 or defs[0].name != name or body[0] is not defs[0] or defs[0].decorator_list:
        raise Miss(f'{origin}: nested generator {name}')
    g = defs[0]
    for n in ast.walk(g):
        if isinstance(n, (ast.FunctionDef, ast.Lambda, ast.ClassDef)) and n is not g:
            raise Miss(f'{origin}.{name}: nested scope')
    if not any(isinstance(n, (ast.Yield, ast.YieldFrom)) for n in ast.walk(g)):
        raise Miss(f'{origin}.{name}: not a generator')
    # the generator is closed: it uses its parameters and module-level names only
    params = {a.arg for a in g.args.args}
    outer = {a.arg for a in fn_node.args.args}
    for n in ast.walk(g):
        if isinstance(n, ast.Name) and n.id in outer and n.id not in params:
            raise Miss(f'{origin}.{name}: closure over {n.id}')
    return g


def extract(task_src):
    tree = ast.parse(task_src)
    check_module(tree)
    check_facades(tree)
    info = Info(tree)
    check_list_fields(info)
    if info.props.get('id') != ('field', 'id'):
        raise Miss('Task.id')
    if GEN_ACC in task_src or FACADE_OWNER in task_src:
        raise Miss(f'{GEN_ACC} / {FACADE_OWNER} occurs in the module')
    fns = {}
    for name, key in MODULE_FUNS.items():
        fns[key] = Fn(key, module_function(tree, name), name, False)
    for name, key in METHODS.items():
        node = info.methods.get(name)
        if node is None:
            raise Miss(f'Task.{name}')
        nested = {}
        if key in GENERATORS:
            gname = GENERATORS[key]
            g = nested_generator(node, gname, f'Task.{name}')
            gkey = f'{key}_{gname}'
            fns[gkey] = Fn(gkey, g, f'Task.{name}.{gname}', True, generator=True, nested={gname: gkey})
            nested = {gname: gkey}
        fns[key] = Fn(key, node, f'Task.{name}', True, nested=nested)
    for name in GETTERS:
        if info.props.get(name) != ('call', f'Task_{name}_get'):
            raise Miss(f'getter {name}')
        fns[f'Task_{name}_get'] = Fn(f'Task_{name}_get', info.getters[name], f'Task.{name} (getter)', True)
    for name in SETTERS:
        if name not in info.setters:
            raise Miss(f'setter {name}')
        fns[f'Task_{name}_set'] = Fn(f'Task_{name}_set', info.setters[name], f'Task.{name} (setter)', True)
    app = method(class_of(tree, '_ChildrenList'), 'append')
    if app.decorator_list:
        raise Miss('_ChildrenList.append')
    fns['ChildrenList_append'] = Fn('ChildrenList_append', app, '_ChildrenList.append', False, facade=True)
    if set(fns) != set(FUNS):
        raise Miss('function table')
    for fn in fns.values():
        fn.dropped = message_only(fn) if not fn.in_task else set()
        fn.params = [p for p in fn.all_params if p not in fn.dropped]
        if fn.facade:
            fn.params = [FACADE_OWNER] + fn.params[1:]
        if fn.in_task and not fn.generator and fn.all_params[0] in fn.wbs_params:
            raise Miss(f'{fn.origin}: self')
    d = {}
    for key in FUNS:
        fn = fns[key]
        tr = Tr(info, fns, fn)
        body = strip_docstring(fn.node.body)
        if key in GENERATORS:
            body = body[1:]                             # the nested generator: a function of its own
        stmts = tr.block(body)
        if fn.generator:
            stmts = [['assign', GEN_ACC, ['listNil']]] + stmts + [['ret', ['var', GEN_ACC]]]
        fn.body = stmts
        fn.writes, fn.calls = tr.effects[0]
        d[key] = {'params': fn.params, 'body': stmts, 'origin': fn.origin}
    # effects: the transitive writes of every function
    total = {k: set(fns[k].writes) for k in FUNS}
    changed = True
    while changed:
        changed = False
        for k in FUNS:
            for c in fns[k].calls:
                if not total[c] <= total[k]:
                    total[k] |= total[c]
                    changed = True
    for k in FUNS:
        fn = fns[k]
        if fn.generator and total[k]:
            raise Miss(f'{fn.origin}: a generator writes {sorted(total[k])}')
        for what, field, writes, calls in fn.constraints:
            w = set(writes)
            for c in calls:
                w |= total[c]
            if field is None and w:
                raise Miss(f'{fn.origin}: {what}: {sorted(w)} may be written while the generator is suspended')
            if field is not None and field in w:
                raise Miss(f'{fn.origin}: {what} over the attribute {field}, which its body may change')
    d['funs'] = list(FUNS)
    return d


# ---- Lean output

def lean_expr(e):
    k = e[0]
    if k in ('none', 'listNil'):
        return f'.{k}'
    if k == 'num':
        return f'(.num {e[1]})' if e[1].isdigit() else f'(.num ({e[1]}))'
    if k == 'bool':
        return f'(.bool {"true" if e[1] else "false"})'
    if k == 'var':
        return f'(.var {lean_str(e[1])})'
    if k == 'callFn':
        return f'(.callFn fn_{FUNS[e[1]]} {lean_expr(e[2])})'
    if k == 'attr':
        return f'(.attr {lean_expr(e[1])} {lean_str(e[2])})'
    if k == 'typeIs':
        return f'(.typeIs {lean_expr(e[1])} {lean_str(e[2])})'
    if k == 'prim':
        return f'(.prim {lean_str(e[1])} {lean_expr(e[2])})'
    if k in ('cmp', 'bin'):
        return f'(.{k} .{e[1]} {lean_expr(e[2])} {lean_expr(e[3])})'
    if k == 'listComp':
        return f'(.listComp {lean_expr(e[1])} {lean_str(e[2])} {lean_expr(e[3])} {lean_expr(e[4])})'
    if k in ('isNone', 'isNotNone', 'not', 'and', 'or', 'isIn', 'isSame', 'listCons', 'len', 'idOf', 'listOf', 'setOf',
             'setInter'):
        return f'(.{k} ' + ' '.join(lean_expr(x) for x in e[1:]) + ')'
    raise Miss(f'lean_expr {e!r}')


def lean_block(b, ind):
    if not b:
        return '[]'
    pad = ' ' * (ind + 1)
    return '[' + (',\n' + pad).join(lean_stmt(s, ind + 1) for s in b) + ']'


def lean_stmt(s, ind):
    k = s[0]
    pad = ' ' * (ind + 2)
    if k == 'assign':
        return f'.assign {lean_str(s[1])} {lean_expr(s[2])}'
    if k == 'aug':
        return f'.aug {lean_str(s[1])} .{s[2]} {lean_expr(s[3])}'
    if k == 'ifElse':
        return f'.ifElse {lean_expr(s[1])}\n{pad}{lean_block(s[2], ind + 2)}\n{pad}{lean_block(s[3], ind + 2)}'
    if k == 'forIn':
        return f'.forIn {lean_str(s[1])} {lean_expr(s[2])}\n{pad}{lean_block(s[3], ind + 2)}'
    if k in ('ret', 'expr'):
        return f'.{k} {lean_expr(s[1])}'
    if k == 'setAttr':
        return f'.setAttr {lean_expr(s[1])} {lean_str(s[2])} {lean_expr(s[3])}'
    if k in ('attrAppend', 'attrRemove'):
        return f'.{k} {lean_expr(s[1])} {lean_str(s[2])} {lean_expr(s[3])}'
    if k == 'attrClear':
        return f'.attrClear {lean_expr(s[1])} {lean_str(s[2])}'
    if k in ('raiseRuntime', 'continue', 'pass'):
        return f'.{k}'
    raise Miss(f'lean_stmt {s!r}')


def to_lean(d):
    out = ('/- GENERATED by tools/extract.py (extract_task) from /repo/src/pjplan/task.py — '
           'do not edit.  Re-checked by `lake build`. -/\n'
           'import PjVerif.Model.PyLite\nnamespace Pj.Extracted\n\n'
           '/-! the function table of task.py: `callFn k` calls the k-th function below -/\n')
    for i, key in enumerate(d['funs']):
        out += f'def fn_{key} : Nat := {i}\n'
    out += '\n'
    for key in d['funs']:
        m = d[key]
        params = ', '.join('"' + p + '"' for p in m['params'])
        out += (f'/-- task.py: `{m["origin"]}`, parameters ({", ".join(m["params"])}) -/\n'
                f'def src_{key} : List PyLite.Stmt :=\n  {lean_block(m["body"], 2)}\n\n'
                f'def src_{key}_params : List String := [{params}]\n\n')
    out += ('/-- the program: function number ↦ parameters and body -/\n'
            'def taskFuns : PyLite.FunTable := fun k =>\n')
    for i, key in enumerate(d['funs']):
        out += f'  {"if" if i == 0 else "else if"} k = fn_{key} then some (src_{key}_params, src_{key})\n'
    out += '  else none\n\n'
    return out + 'end Pj.Extracted\n'


# the translation of the source as of the last successful check (fallback when extract() raises Miss)
PINNED = {'ChildrenList_append': {'body': [['expr', ['callFn', 6, ['listCons', ['var', 'task'], ['listNil']]]],
                                  ['expr',
                                   ['callFn', 12,
                                    ['listCons', ['var', 'task'],
                                     ['listCons', ['var', '_facade_parent'], ['listNil']]]]]],
                         'origin': '_ChildrenList.append',
                         'params': ['_facade_parent', 'task']},
 'Task_attach': {'body': [['ifElse', ['isNone', ['var', 'wbs']], [['ret', ['none']]], []],
                          ['setAttr', ['var', 'self'], 'wbs', ['var', 'wbs']],
                          ['forIn', 'ch', ['attr', ['var', 'self'], 'children'],
                           [['expr',
                             ['callFn', 8,
                              ['listCons', ['var', 'ch'], ['listCons', ['var', 'wbs'], ['listNil']]]]]]]],
                 'origin': 'Task._attach',
                 'params': ['self', 'wbs']},
 'Task_children_set': {'body': [['assign', 'value', ['callFn', 0, ['listCons', ['var', 'value'], ['listNil']]]],
                                ['expr', ['callFn', 7, ['listCons', ['var', 'value'], ['listNil']]]],
                                ['ifElse', ['isNone', ['attr', ['var', 'self'], 'wbs']],
                                 [['ifElse',
                                   ['cmp', 'gt',
                                    ['len',
                                     ['listComp', ['var', 'v'], 'v', ['var', 'value'],
                                      ['isNotNone', ['attr', ['var', 'v'], 'wbs']]]],
                                    ['num', '0']],
                                   [['raiseRuntime']], []],
                                  ['ifElse',
                                   ['callFn', 3,
                                    ['listCons', ['var', 'self'], ['listCons', ['var', 'value'], ['listNil']]]],
                                   [['raiseRuntime']], []]],
                                 [['ifElse',
                                   ['cmp', 'gt',
                                    ['len',
                                     ['listComp', ['var', 'v'], 'v', ['var', 'value'],
                                      ['and', ['isNotNone', ['attr', ['var', 'v'], 'wbs']],
                                       ['cmp', 'ne', ['attr', ['var', 'v'], 'wbs'],
                                        ['attr', ['var', 'self'], 'wbs']]]]],
                                    ['num', '0']],
                                   [['raiseRuntime']], []],
                                  ['ifElse',
                                   ['callFn', 3,
                                    ['listCons', ['var', 'self'], ['listCons', ['var', 'value'], ['listNil']]]],
                                   [['raiseRuntime']], []]]],
                                ['forIn', 'ch', ['var', 'value'],
                                 [['ifElse',
                                   ['or', ['isSame', ['var', 'ch'], ['var', 'self']],
                                    ['isIn', ['var', 'self'],
                                     ['callFn', 16, ['listCons', ['var', 'ch'], ['listNil']]]]],
                                   [['raiseRuntime']], []],
                                  ['ifElse',
                                   ['callFn', 4,
                                    ['listCons', ['callFn', 2, ['listCons', ['var', 'ch'], ['listNil']]],
                                     ['listCons',
                                      ['bin', 'add', ['listCons', ['var', 'self'], ['listNil']],
                                       ['callFn', 13, ['listCons', ['var', 'self'], ['listNil']]]],
                                      ['listNil']]]],
                                   [['raiseRuntime']], []]]],
                                ['forIn', 'v', ['attr', ['var', 'self'], 'children'],
                                 [['setAttr', ['var', 'v'], 'parent', ['none']],
                                  ['ifElse', ['not', ['isIn', ['var', 'v'], ['var', 'value']]],
                                   [['expr', ['callFn', 10, ['listCons', ['var', 'v'], ['listNil']]]]], []]]],
                                ['attrClear', ['var', 'self'], 'children'],
                                ['forIn', 'v', ['var', 'value'],
                                 [['expr',
                                   ['callFn', 12,
                                    ['listCons', ['var', 'v'], ['listCons', ['var', 'self'], ['listNil']]]]]]]],
                       'origin': 'Task.children (setter)',
                       'params': ['self', 'value']},
 'Task_detach': {'body': [['setAttr', ['var', 'self'], 'wbs', ['none']],
                          ['forIn', 'ch', ['attr', ['var', 'self'], 'children'],
                           [['expr', ['callFn', 10, ['listCons', ['var', 'ch'], ['listNil']]]]]]],
                 'origin': 'Task._detach',
                 'params': ['self']},
 'Task_get_all_children': {'body': [['ret',
                                     ['listComp', ['var', 't'], 't',
                                      ['callFn', 17, ['listCons', ['var', 'self'], ['listNil']]], ['bool', True]]]],
                           'origin': 'Task.__get_all_children',
                           'params': ['self']},
 'Task_get_all_children_get_children': {'body': [['assign', '_yielded', ['listNil']],
                                                 ['forIn', 'ch', ['attr', ['var', 't'], 'children'],
                                                  [['aug', '_yielded', 'add',
                                                    ['listCons', ['var', 'ch'], ['listNil']]],
                                                   ['aug', '_yielded', 'add',
                                                    ['callFn', 17, ['listCons', ['var', 'ch'], ['listNil']]]]]],
                                                 ['ret', ['var', '_yielded']]],
                                        'origin': 'Task.__get_all_children.get_children',
                                        'params': ['t']},
 'Task_get_all_parents': {'body': [['ret',
                                    ['listComp', ['var', 't'], 't',
                                     ['callFn', 14, ['listCons', ['attr', ['var', 'self'], 'parent'], ['listNil']]],
                                     ['bool', True]]]],
                          'origin': 'Task.__get_all_parents',
                          'params': ['self']},
 'Task_get_all_parents_get_parent': {'body': [['assign', '_yielded', ['listNil']],
                                              ['ifElse',
                                               ['and', ['isNotNone', ['var', 't']],
                                                ['cmp', 'ne', ['attr', ['var', 't'], 'id'],
                                                 ['num', '9223372036854775807']]],
                                               [['aug', '_yielded', 'add', ['listCons', ['var', 't'], ['listNil']]],
                                                ['aug', '_yielded', 'add',
                                                 ['callFn', 14,
                                                  ['listCons',
                                                   ['callFn', 11, ['listCons', ['var', 't'], ['listNil']]],
                                                   ['listNil']]]]],
                                               []],
                                              ['ret', ['var', '_yielded']]],
                                     'origin': 'Task.__get_all_parents.get_parent',
                                     'params': ['t']},
 'Task_get_all_predecessors': {'body': [['ret',
                                         ['callFn', 5,
                                          ['listCons', ['callFn', 20, ['listCons', ['var', 'self'], ['listNil']]],
                                           ['listNil']]]]],
                               'origin': 'Task.__get_all_predecessors',
                               'params': ['self']},
 'Task_get_all_predecessors_get_predecessor': {'body': [['assign', '_yielded', ['listNil']],
                                                        ['forIn', 'pr', ['attr', ['var', 't'], 'predecessors'],
                                                         [['aug', '_yielded', 'add',
                                                           ['listCons', ['var', 'pr'], ['listNil']]],
                                                          ['aug', '_yielded', 'add',
                                                           ['callFn', 20,
                                                            ['listCons', ['var', 'pr'], ['listNil']]]]]],
                                                        ['ret', ['var', '_yielded']]],
                                               'origin': 'Task.__get_all_predecessors.get_predecessor',
                                               'params': ['t']},
 'Task_get_all_successors': {'body': [['ret',
                                       ['callFn', 5,
                                        ['listCons', ['callFn', 23, ['listCons', ['var', 'self'], ['listNil']]],
                                         ['listNil']]]]],
                             'origin': 'Task.__get_all_successors',
                             'params': ['self']},
 'Task_get_all_successors_get_successor': {'body': [['assign', '_yielded', ['listNil']],
                                                    ['forIn', 'pr', ['attr', ['var', 't'], 'successors'],
                                                     [['aug', '_yielded', 'add',
                                                       ['listCons', ['var', 'pr'], ['listNil']]],
                                                      ['aug', '_yielded', 'add',
                                                       ['callFn', 23, ['listCons', ['var', 'pr'], ['listNil']]]]]],
                                                    ['ret', ['var', '_yielded']]],
                                           'origin': 'Task.__get_all_successors.get_successor',
                                           'params': ['t']},
 'Task_parent_get': {'body': [['ifElse',
                               ['or', ['isNone', ['attr', ['var', 'self'], 'parent']],
                                ['cmp', 'eq', ['attr', ['attr', ['var', 'self'], 'parent'], 'id'],
                                 ['num', '9223372036854775807']]],
                               [['ret', ['none']]], []],
                              ['ret', ['attr', ['var', 'self'], 'parent']]],
                     'origin': 'Task.parent (getter)',
                     'params': ['self']},
 'Task_parent_set': {'body': [['ifElse', ['isNone', ['attr', ['var', 'self'], 'wbs']],
                               [['ifElse',
                                 ['and', ['isNotNone', ['var', 'parent']],
                                  ['or', ['isNone', ['callFn', 11, ['listCons', ['var', 'self'], ['listNil']]]],
                                   ['cmp', 'ne', ['idOf', ['callFn', 11, ['listCons', ['var', 'self'], ['listNil']]]],
                                    ['idOf', ['var', 'parent']]]]],
                                 [['ifElse',
                                   ['callFn', 3,
                                    ['listCons', ['var', 'parent'],
                                     ['listCons', ['listCons', ['var', 'self'], ['listNil']], ['listNil']]]],
                                   [['raiseRuntime']], []]],
                                 []]],
                               [['ifElse',
                                 ['and', ['isNotNone', ['var', 'parent']],
                                  ['cmp', 'ne', ['attr', ['var', 'parent'], 'wbs'],
                                   ['attr', ['var', 'self'], 'wbs']]],
                                 [['raiseRuntime']], []]]],
                              ['ifElse', ['isNotNone', ['var', 'parent']],
                               [['ifElse',
                                 ['or', ['isSame', ['var', 'parent'], ['var', 'self']],
                                  ['isIn', ['var', 'parent'],
                                   ['callFn', 16, ['listCons', ['var', 'self'], ['listNil']]]]],
                                 [['raiseRuntime']], []],
                                ['ifElse',
                                 ['callFn', 4,
                                  ['listCons', ['callFn', 2, ['listCons', ['var', 'self'], ['listNil']]],
                                   ['listCons',
                                    ['bin', 'add', ['listCons', ['var', 'parent'], ['listNil']],
                                     ['callFn', 13, ['listCons', ['var', 'parent'], ['listNil']]]],
                                    ['listNil']]]],
                                 [['raiseRuntime']], []]],
                               []],
                              ['ifElse',
                               ['and', ['isNotNone', ['attr', ['var', 'self'], 'parent']],
                                ['isIn', ['var', 'self'], ['attr', ['attr', ['var', 'self'], 'parent'], 'children']]],
                               [['attrRemove', ['attr', ['var', 'self'], 'parent'], 'children', ['var', 'self']]],
                               []],
                              ['ifElse', ['isNone', ['var', 'parent']],
                               [['ifElse', ['isNotNone', ['attr', ['var', 'self'], 'wbs']],
                                 [['expr',
                                   ['callFn', 24,
                                    ['listCons',
                                     ['prim', '_root', ['listCons', ['attr', ['var', 'self'], 'wbs'], ['listNil']]],
                                     ['listCons', ['var', 'self'], ['listNil']]]]]],
                                 [['setAttr', ['var', 'self'], 'parent', ['none']]]]],
                               [['setAttr', ['var', 'self'], 'parent', ['var', 'parent']],
                                ['expr',
                                 ['callFn', 8,
                                  ['listCons', ['var', 'self'],
                                   ['listCons', ['attr', ['var', 'parent'], 'wbs'], ['listNil']]]]],
                                ['ifElse',
                                 ['and', ['var', 'parent'],
                                  ['not', ['isIn', ['var', 'self'], ['attr', ['var', 'parent'], 'children']]]],
                                 [['attrAppend', ['var', 'parent'], 'children', ['var', 'self']]], []]]]],
                     'origin': 'Task.parent (setter)',
                     'params': ['self', 'parent']},
 'Task_predecessors_set': {'body': [['assign', 'value', ['callFn', 0, ['listCons', ['var', 'value'], ['listNil']]]],
                                    ['expr', ['callFn', 7, ['listCons', ['var', 'value'], ['listNil']]]],
                                    ['assign', 'parents', ['callFn', 13, ['listCons', ['var', 'self'], ['listNil']]]],
                                    ['assign', 'children',
                                     ['callFn', 16, ['listCons', ['var', 'self'], ['listNil']]]],
                                    ['forIn', 'v', ['var', 'value'],
                                     [['ifElse',
                                       ['or', ['isIn', ['var', 'v'], ['var', 'parents']],
                                        ['isIn', ['var', 'v'], ['var', 'children']]],
                                       [['raiseRuntime']], []]]],
                                    ['forIn', 'v', ['var', 'value'],
                                     [['ifElse',
                                       ['or', ['isSame', ['var', 'v'], ['var', 'self']],
                                        ['isIn', ['var', 'self'],
                                         ['callFn', 19, ['listCons', ['var', 'v'], ['listNil']]]]],
                                       [['raiseRuntime']], []]]],
                                    ['forIn', 'v', ['attr', ['var', 'self'], 'predecessors'],
                                     [['setAttr', ['var', 'v'], 'successors',
                                       ['listComp', ['var', 't'], 't', ['attr', ['var', 'v'], 'successors'],
                                        ['not', ['isSame', ['var', 't'], ['var', 'self']]]]]]],
                                    ['setAttr', ['var', 'self'], 'predecessors',
                                     ['listComp', ['var', 'v'], 'v', ['var', 'value'], ['bool', True]]],
                                    ['forIn', 'v', ['var', 'value'],
                                     [['ifElse',
                                       ['not', ['isIn', ['var', 'self'], ['attr', ['var', 'v'], 'successors']]],
                                       [['attrAppend', ['var', 'v'], 'successors', ['var', 'self']]], []]]]],
                           'origin': 'Task.predecessors (setter)',
                           'params': ['self', 'value']},
 'Task_raw_parent': {'body': [['ret', ['attr', ['var', 'self'], 'parent']]],
                     'origin': 'Task._raw_parent',
                     'params': ['self']},
 'Task_successors_set': {'body': [['assign', 'value', ['callFn', 0, ['listCons', ['var', 'value'], ['listNil']]]],
                                  ['expr', ['callFn', 7, ['listCons', ['var', 'value'], ['listNil']]]],
                                  ['assign', 'parents', ['callFn', 13, ['listCons', ['var', 'self'], ['listNil']]]],
                                  ['assign', 'children', ['callFn', 16, ['listCons', ['var', 'self'], ['listNil']]]],
                                  ['forIn', 'v', ['var', 'value'],
                                   [['ifElse',
                                     ['or', ['isIn', ['var', 'v'], ['var', 'parents']],
                                      ['isIn', ['var', 'v'], ['var', 'children']]],
                                     [['raiseRuntime']], []]]],
                                  ['forIn', 'v', ['var', 'value'],
                                   [['ifElse',
                                     ['or', ['isSame', ['var', 'v'], ['var', 'self']],
                                      ['isIn', ['var', 'self'],
                                       ['callFn', 22, ['listCons', ['var', 'v'], ['listNil']]]]],
                                     [['raiseRuntime']], []]]],
                                  ['forIn', 'v', ['attr', ['var', 'self'], 'successors'],
                                   [['setAttr', ['var', 'v'], 'predecessors',
                                     ['listComp', ['var', 't'], 't', ['attr', ['var', 'v'], 'predecessors'],
                                      ['not', ['isSame', ['var', 't'], ['var', 'self']]]]]]],
                                  ['setAttr', ['var', 'self'], 'successors',
                                   ['listComp', ['var', 'v'], 'v', ['var', 'value'], ['bool', True]]],
                                  ['forIn', 'v', ['var', 'value'],
                                   [['ifElse',
                                     ['not', ['isIn', ['var', 'self'], ['attr', ['var', 'v'], 'predecessors']]],
                                     [['attrAppend', ['var', 'v'], 'predecessors', ['var', 'self']]], []]]]],
                         'origin': 'Task.successors (setter)',
                         'params': ['self', 'value']},
 'check_no_nones_in_list': {'body': [['forIn', 'v', ['var', 'lst'],
                                      [['ifElse', ['isNone', ['var', 'v']], [['raiseRuntime']], []]]]],
                            'origin': '_check_no_nones_in_list',
                            'params': ['lst']},
 'check_not_none': {'body': [['ifElse', ['isNone', ['var', 'obj']], [['raiseRuntime']], []]],
                    'origin': '_check_not_none',
                    'params': ['obj']},
 'collect_subtree': {'body': [['assign', 'res', ['listCons', ['var', 'task'], ['listNil']]],
                              ['forIn', 'ch', ['attr', ['var', 'task'], 'children'],
                               [['aug', 'res', 'add', ['callFn', 2, ['listCons', ['var', 'ch'], ['listNil']]]]]],
                              ['ret', ['var', 'res']]],
                     'origin': '_collect_subtree',
                     'params': ['task']},
 'find_root': {'body': [['assign', 'parent', ['callFn', 9, ['listCons', ['var', 'task'], ['listNil']]]],
                        ['ifElse', ['isNotNone', ['var', 'parent']],
                         [['ret', ['callFn', 1, ['listCons', ['var', 'parent'], ['listNil']]]]], []],
                        ['ret', ['var', 'task']]],
               'origin': '_find_root',
               'params': ['task']},
 'funs': ['to_list', 'find_root', 'collect_subtree', 'has_id_intersection', 'linked_with_any', 'unique_objects',
          'check_not_none', 'check_no_nones_in_list', 'Task_attach', 'Task_raw_parent', 'Task_detach',
          'Task_parent_get', 'Task_parent_set', 'Task_get_all_parents', 'Task_get_all_parents_get_parent',
          'Task_children_set', 'Task_get_all_children', 'Task_get_all_children_get_children', 'Task_predecessors_set',
          'Task_get_all_predecessors', 'Task_get_all_predecessors_get_predecessor', 'Task_successors_set',
          'Task_get_all_successors', 'Task_get_all_successors_get_successor', 'ChildrenList_append'],
 'has_id_intersection': {'body': [['assign', 'parent_root',
                                   ['callFn', 1, ['listCons', ['var', 'parent'], ['listNil']]]],
                                  ['assign', 'parent_tree',
                                   ['callFn', 2, ['listCons', ['var', 'parent_root'], ['listNil']]]],
                                  ['assign', 'all_children_tasks', ['listNil']],
                                  ['forIn', 'ch', ['var', 'children'],
                                   [['aug', 'all_children_tasks', 'add',
                                     ['callFn', 2, ['listCons', ['var', 'ch'], ['listNil']]]]]],
                                  ['assign', 'parent_tree_object_ids',
                                   ['setOf',
                                    ['listComp', ['idOf', ['var', 't']], 't', ['var', 'parent_tree'],
                                     ['bool', True]]]],
                                  ['assign', 'new_tasks',
                                   ['callFn', 5,
                                    ['listCons',
                                     ['listComp', ['var', 't'], 't', ['var', 'all_children_tasks'],
                                      ['not', ['isIn', ['idOf', ['var', 't']], ['var', 'parent_tree_object_ids']]]],
                                     ['listNil']]]],
                                  ['ifElse', ['cmp', 'eq', ['len', ['var', 'new_tasks']], ['num', '0']],
                                   [['ret', ['bool', False]]], []],
                                  ['ifElse',
                                   ['cmp', 'ne',
                                    ['len',
                                     ['setOf',
                                      ['listComp', ['attr', ['var', 't'], 'id'], 't', ['var', 'new_tasks'],
                                       ['bool', True]]]],
                                    ['len', ['var', 'new_tasks']]],
                                   [['ret', ['bool', True]]], []],
                                  ['assign', 'parent_tree_ids',
                                   ['setOf',
                                    ['listComp', ['attr', ['var', 't'], 'id'], 't', ['var', 'parent_tree'],
                                     ['bool', True]]]],
                                  ['assign', 'new_task_ids',
                                   ['setOf',
                                    ['listComp', ['attr', ['var', 't'], 'id'], 't', ['var', 'new_tasks'],
                                     ['bool', True]]]],
                                  ['ret',
                                   ['cmp', 'gt',
                                    ['len', ['setInter', ['var', 'parent_tree_ids'], ['var', 'new_task_ids']]],
                                    ['num', '0']]]],
                         'origin': '_has_id_intersection',
                         'params': ['parent', 'children']},
 'linked_with_any': {'body': [['assign', 'other_ids',
                               ['setOf',
                                ['listComp', ['idOf', ['var', 'o']], 'o', ['var', 'others'], ['bool', True]]]],
                              ['forIn', 't', ['var', 'tasks'],
                               [['forIn', 'linked',
                                 ['bin', 'add', ['listOf', ['attr', ['var', 't'], 'predecessors']],
                                  ['listOf', ['attr', ['var', 't'], 'successors']]],
                                 [['ifElse', ['isIn', ['idOf', ['var', 'linked']], ['var', 'other_ids']],
                                   [['ret', ['bool', True]]], []]]]]],
                              ['ret', ['bool', False]]],
                     'origin': '_linked_with_any',
                     'params': ['tasks', 'others']},
 'to_list': {'body': [['ifElse', ['isNone', ['var', 'val']], [['ret', ['listNil']]],
                       [['ifElse', ['typeIs', ['var', 'val'], 'Task'],
                         [['ret', ['listCons', ['var', 'val'], ['listNil']]]],
                         [['ifElse',
                           ['or', ['typeIs', ['var', 'val'], 'list'],
                            ['or', ['typeIs', ['var', 'val'], 'tuple'],
                             ['or', ['typeIs', ['var', 'val'], 'set'], ['typeIs', ['var', 'val'], 'Iterable']]]],
                           [['ret', ['listComp', ['var', 't'], 't', ['var', 'val'], ['isNotNone', ['var', 't']]]]],
                           [['raiseRuntime']]]]]]]],
             'origin': '_to_list',
             'params': ['val']},
 'unique_objects': {'body': [['assign', 'seen', ['listNil']], ['assign', 'res', ['listNil']],
                             ['forIn', 't', ['var', 'tasks'],
                              [['ifElse', ['not', ['isIn', ['idOf', ['var', 't']], ['var', 'seen']]],
                                [['aug', 'seen', 'add', ['listCons', ['idOf', ['var', 't']], ['listNil']]],
                                 ['aug', 'res', 'add', ['listCons', ['var', 't'], ['listNil']]]],
                                []]]],
                             ['ret', ['var', 'res']]],
                    'origin': '_unique_objects',
                    'params': ['tasks']}}


if __name__ == '__main__':
    # python3 extract_task.py <task.py> [<out.lean> | --pinned]: translate (no pinned fallback)
    import sys
    d = extract(open(sys.argv[1]).read())
    if len(sys.argv) > 2 and sys.argv[2] == '--pinned':
        import pprint
        pprint.pprint(d, width=118, compact=True)
        sys.exit(0)
    text = to_lean(d)
    if len(sys.argv) > 2:
        with open(sys.argv[2], 'w') as f:
            f.write(text)
    else:
        sys.stdout.write(text)
