#!/usr/bin/env python3
"""extract.py <repo> <leandir>: find constants/tables in /repo/src/pjplan with the `ast` module and write them to
lean/PjVerif/Extracted/*.lean (only when the content changes) and out/extracted.json.  Prints one JSON line:
{"ok": [...], "miss": [...]}.  A construct that is not found is a *miss*: the committed Pinned value is used and the
evidence says so (tie = correspondence only for that constant)."""
import ast, json, os, sys

repo, lean = sys.argv[1], sys.argv[2]
src = os.path.join(repo, 'src', 'pjplan')
verif = os.path.dirname(os.path.abspath(lean.rstrip('/')))
ok, miss = [], []
vals = {}


def parse(rel):
    return ast.parse(open(os.path.join(src, rel)).read())


def default_of(tree, cls, func, arg):
    """default value of keyword `arg` of method `func` (name-mangled or not) in class `cls`"""
    for node in ast.walk(tree):
        if isinstance(node, ast.ClassDef) and (cls is None or node.name == cls):
            for f in node.body:
                if isinstance(f, ast.FunctionDef) and f.name == func:
                    args = f.args.args
                    defs = f.args.defaults
                    for a, d in zip(args[len(args) - len(defs):], defs):
                        if a.arg == arg:
                            return ast.literal_eval(d)
    return None


def record(name, value, pinned):
    if value is None:
        miss.append(name)
        vals[name] = pinned
    else:
        ok.append(name)
        vals[name] = value


try:
    t = parse('resource.py')
    record('max_days', default_of(t, 'IResource', 'get_nearest_availability_date', 'max_days'), 100000)
except Exception as e:  # noqa
    miss.append(f'resource.py: {e}')
    vals.setdefault('max_days', 100000)

try:
    t = parse('schedule.py')
    record('fwd_nearest_max_steps', default_of(t, 'ForwardScheduler', '__get_resource_nearest_available_date', 'max_steps'), 100000)
    record('fwd_shift_max_steps', default_of(t, 'ForwardScheduler', '__shift_by_resource_usage_and_calendar', 'max_steps'), 100000)
    record('bwd_nearest_max_steps', default_of(t, 'BackwardScheduler', '__get_resource_nearest_available_date', 'max_steps'), 1000)
    record('bwd_shift_max_steps', default_of(t, 'BackwardScheduler', '__shift_by_resource_usage_and_calendar', 'max_steps'), 100000)
except Exception as e:  # noqa
    miss.append(f'schedule.py: {e}')

try:
    t = parse('task.py')
    v = None
    for node in t.body:
        if isinstance(node, ast.Assign) and getattr(node.targets[0], 'id', None) == 'EMPTY_TASK_ID':
            v = ast.unparse(node.value)
    record('empty_task_id_expr', v, 'sys.maxsize')
except Exception as e:  # noqa
    miss.append(f'task.py: {e}')

try:
    t = parse('calendar.py')
    v = None
    for node in t.body:
        if isinstance(node, ast.Assign) and getattr(node.targets[0], 'id', None) == 'DEFAULT_CALENDAR':
            kw = {k.arg: ast.literal_eval(k.value) for k in node.value.keywords}
            v = [kw.get('days'), kw.get('units_per_day')]
    record('default_calendar', v, [[0, 1, 2, 3, 4], 8])
except Exception as e:  # noqa
    miss.append(f'calendar.py: {e}')


try:
    sys.path.insert(0, os.path.dirname(os.path.abspath(__file__)))
    import extract_query
    try:
        q = extract_query.extract(open(os.path.join(src, 'task.py')).read())
        ok.append('query_chain')
    except Exception as e:  # noqa
        q = extract_query.PINNED
        miss.append(f'query_chain: {e}')
    vals['query'] = q
except Exception as e:  # noqa
    miss.append(f'extract_query: {e}')
    q = None

try:
    import extract_calendar
    try:
        cs = extract_calendar.extract(open(os.path.join(src, 'calendar.py')).read(),
                                      open(os.path.join(src, 'resource.py')).read())
        ok.append('calendar_src')
    except Exception as e:  # noqa
        cs = extract_calendar.PINNED
        miss.append(f'calendar_src: {e}')
    vals['calendar_src'] = cs
except Exception as e:  # noqa
    miss.append(f'extract_calendar: {e}')
    cs = None

try:
    import extract_schedule
    try:
        ss = extract_schedule.extract(open(os.path.join(src, 'schedule.py')).read(),
                                      open(os.path.join(src, 'resource.py')).read())
        ok.append('schedule_src')
    except Exception as e:  # noqa
        ss = extract_schedule.PINNED
        miss.append(f'schedule_src: {e}')
    vals['schedule_src'] = ss
except Exception as e:  # noqa
    miss.append(f'extract_schedule: {e}')
    ss = None

try:
    import extract_pass
    try:
        ps = extract_pass.extract(open(os.path.join(src, 'schedule.py')).read())
        ok.append('pass_src')
    except Exception as e:  # noqa
        ps = extract_pass.PINNED
        miss.append(f'pass_src: {e}')
    vals['pass_src'] = ps
except Exception as e:  # noqa
    miss.append(f'extract_pass: {e}')
    ps = None

try:
    import extract_calc
    try:
        ks = extract_calc.extract(open(os.path.join(src, 'schedule.py')).read())
        ok.append('calc_src')
    except Exception as e:  # noqa
        ks = extract_calc.PINNED
        miss.append(f'calc_src: {e}')
    vals['calc_src'] = ks
except Exception as e:  # noqa
    miss.append(f'extract_calc: {e}')
    ks = None

try:
    import extract_task
    try:
        ts = extract_task.extract(open(os.path.join(src, 'task.py')).read())
        ok.append('task_src')
    except Exception as e:  # noqa
        ts = extract_task.PINNED
        miss.append(f'task_src: {e}')
    vals['task_src'] = ts
except Exception as e:  # noqa
    miss.append(f'extract_task: {e}')
    ts = None

try:
    import extract_wbs
    try:
        ws = extract_wbs.extract(open(os.path.join(src, 'task.py')).read(), open(os.path.join(src, 'wbs.py')).read())
        ok.append('wbs_src')
    except Exception as e:  # noqa
        ws = extract_wbs.PINNED
        miss.append(f'wbs_src: {e}')
    vals['wbs_src'] = ws
except Exception as e:  # noqa
    miss.append(f'extract_wbs: {e}')
    ws = None

try:
    import extract_facade
    try:
        fs = extract_facade.extract(open(os.path.join(src, 'task.py')).read())
        ok.append('facade_src')
    except Exception as e:  # noqa
        fs = extract_facade.PINNED
        miss.append(f'facade_src: {e}')
    vals['facade_src'] = fs
except Exception as e:  # noqa
    miss.append(f'extract_facade: {e}')
    fs = None

try:
    import extract_critpath
    try:
        cps = extract_critpath.extract(open(os.path.join(src, 'alg', 'critical_path.py')).read(),
                                       open(os.path.join(src, 'wbs.py')).read())
        ok.append('critpath_src')
    except Exception as e:  # noqa
        cps = extract_critpath.PINNED
        miss.append(f'critpath_src: {e}')
    vals['critpath_src'] = cps
except Exception as e:  # noqa
    miss.append(f'extract_critpath: {e}')
    cps = None

try:
    import extract_dhtmlx
    try:
        dxs = extract_dhtmlx.extract(open(os.path.join(src, 'viz', 'dhtmlx', 'gantt.py')).read())
        ok.append('dhtmlx_src')
    except Exception as e:  # noqa
        dxs = extract_dhtmlx.pinned()
        miss.append(f'dhtmlx_src: {e}')
    vals['dhtmlx_src'] = dxs
except Exception as e:  # noqa
    miss.append(f'extract_dhtmlx: {e}')
    dxs = None

try:
    import extract_render
    try:
        rns = extract_render.extract(open(os.path.join(src, 'viz', 'mermaid', 'network.py')).read(),
                                     open(os.path.join(src, 'viz', 'mermaid', 'gantt.py')).read())
        ok.append('render_src')
    except Exception as e:  # noqa
        rns = extract_render.pinned()
        miss.append(f'render_src: {e}')
    vals['render_src'] = rns
except Exception as e:  # noqa
    miss.append(f'extract_render: {e}')
    rns = None

try:
    import extract_csv
    try:
        cvs = extract_csv.extract(open(os.path.join(src, 'io', 'csv_io.py')).read(),
                                  open(os.path.join(src, 'io', 'raw.py')).read())
        ok.append('csv_src')
    except Exception as e:  # noqa
        cvs = extract_csv.PINNED
        miss.append(f'csv_src: {e}')
    vals['csv_src'] = cvs
except Exception as e:  # noqa
    miss.append(f'extract_csv: {e}')
    cvs = None

try:
    import extract_print
    try:
        prs = extract_print.extract(open(os.path.join(src, 'task.py')).read(), open(os.path.join(src, 'utils.py')).read())
        ok.append('print_src')
    except Exception as e:  # noqa
        prs = extract_print.PINNED
        miss.append(f'print_src: {e}')
    vals['print_src'] = prs
except Exception as e:  # noqa
    miss.append(f'extract_print: {e}')
    prs = None


def write_if_changed(path, content):
    os.makedirs(os.path.dirname(path), exist_ok=True)
    if not os.path.exists(path) or open(path).read() != content:
        with open(path, 'w') as f:
            f.write(content)


dc = vals.get('default_calendar', [[0, 1, 2, 3, 4], 8])
sched = f"""/- GENERATED by tools/extract.py from /repo/src/pjplan — do not edit.  Re-checked by `lake build`. -/
namespace Pj.Extracted

/-- resource.py: default `max_days` of `get_nearest_availability_date` -/
def maxDays : Nat := {vals.get('max_days', 100000)}
/-- schedule.py: default `max_steps` of the four bounded loops -/
def fwdNearestMaxSteps : Nat := {vals.get('fwd_nearest_max_steps', 100000)}
def fwdShiftMaxSteps : Nat := {vals.get('fwd_shift_max_steps', 100000)}
def bwdNearestMaxSteps : Nat := {vals.get('bwd_nearest_max_steps', 1000)}
def bwdShiftMaxSteps : Nat := {vals.get('bwd_shift_max_steps', 100000)}
/-- calendar.py: DEFAULT_CALENDAR = WeeklyCalendar(days=…, units_per_day=…) -/
def defaultDays : List Int := {json.dumps(dc[0])}
def defaultUnits : Rat := {dc[1]}

end Pj.Extracted
"""
write_if_changed(os.path.join(lean, 'PjVerif', 'Extracted', 'Sched.lean'), sched)
if q is not None:
    write_if_changed(os.path.join(lean, 'PjVerif', 'Extracted', 'Query.lean'), extract_query.to_lean(q))
if cs is not None:
    write_if_changed(os.path.join(lean, 'PjVerif', 'Extracted', 'CalendarSrc.lean'), extract_calendar.to_lean(cs))
if ss is not None:
    write_if_changed(os.path.join(lean, 'PjVerif', 'Extracted', 'ScheduleSrc.lean'), extract_schedule.to_lean(ss))
if ps is not None:
    write_if_changed(os.path.join(lean, 'PjVerif', 'Extracted', 'PassSrc.lean'), extract_pass.to_lean(ps))
if ks is not None:
    write_if_changed(os.path.join(lean, 'PjVerif', 'Extracted', 'CalcSrc.lean'), extract_calc.to_lean(ks))
if ts is not None:
    write_if_changed(os.path.join(lean, 'PjVerif', 'Extracted', 'TaskSrc.lean'), extract_task.to_lean(ts))
if ws is not None:
    write_if_changed(os.path.join(lean, 'PjVerif', 'Extracted', 'WbsSrc.lean'), extract_wbs.to_lean(ws))
if fs is not None:
    write_if_changed(os.path.join(lean, 'PjVerif', 'Extracted', 'FacadeSrc.lean'), extract_facade.to_lean(fs))
if cps is not None:
    write_if_changed(os.path.join(lean, 'PjVerif', 'Extracted', 'CritPathSrc.lean'), extract_critpath.to_lean(cps))
if dxs is not None:
    write_if_changed(os.path.join(lean, 'PjVerif', 'Extracted', 'DhtmlxSrc.lean'), extract_dhtmlx.to_lean(dxs))
if rns is not None:
    write_if_changed(os.path.join(lean, 'PjVerif', 'Extracted', 'RenderSrc.lean'), extract_render.to_lean(rns))
if cvs is not None:
    write_if_changed(os.path.join(lean, 'PjVerif', 'Extracted', 'CsvSrc.lean'), extract_csv.to_lean(cvs))
if prs is not None:
    write_if_changed(os.path.join(lean, 'PjVerif', 'Extracted', 'PrintSrc.lean'), extract_print.to_lean(prs))
os.makedirs(os.path.join(verif, 'out'), exist_ok=True)
write_if_changed(os.path.join(verif, 'out', 'extracted.json'), json.dumps(vals, indent=1))
print(json.dumps({'ok': ok, 'miss': miss}))
