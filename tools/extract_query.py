"""extract_query: translate the keyword-suffix chain of _ImmutableTaskList.__call__ (task.py, nested function `search`)
into data: [(suffix, cut, reject-expression)] in source order plus the default (no suffix) reject expression.
Expression language (s-expressions as nested lists):
  ["valNone"] ["valNotNone"] ["search"] ["inV"] ["cmp", op] ["not", e] ["or", a, b]
where `val` is the task's attribute value and `v` the filter value."""
import ast

CMP = {ast.NotEq: 'ne', ast.LtE: 'le', ast.Lt: 'lt', ast.GtE: 'ge', ast.Gt: 'gt', ast.Eq: 'eq'}


class Miss(Exception):
    pass


def is_get_attr(node):
    """self.__get_task_attribute(t, k)"""
    return isinstance(node, ast.Call) and isinstance(node.func, ast.Attribute) and node.func.attr.endswith('get_task_attribute')


def tr(node, has_val):
    """translate a reject condition; `val` may be the local variable or the inline getter call"""
    def is_val(n):
        return (has_val and isinstance(n, ast.Name) and n.id == 'val') or is_get_attr(n)
    if isinstance(node, ast.BoolOp) and isinstance(node.op, ast.Or) and len(node.values) == 2:
        return ['or', tr(node.values[0], has_val), tr(node.values[1], has_val)]
    if isinstance(node, ast.UnaryOp) and isinstance(node.op, ast.Not):
        return ['not', tr(node.operand, has_val)]
    if isinstance(node, ast.Compare) and len(node.ops) == 1:
        l, op, r = node.left, node.ops[0], node.comparators[0]
        if is_val(l) and isinstance(op, ast.Is) and isinstance(r, ast.Constant) and r.value is None:
            return ['valNone']
        if is_val(l) and isinstance(op, ast.IsNot) and isinstance(r, ast.Constant) and r.value is None:
            return ['valNotNone']
        if is_val(l) and isinstance(op, ast.In) and isinstance(r, ast.Name) and r.id == 'v':
            return ['inV']
        if is_val(l) and isinstance(op, ast.NotIn) and isinstance(r, ast.Name) and r.id == 'v':
            return ['not', ['inV']]
        if is_val(l) and type(op) in CMP and isinstance(r, ast.Name) and r.id == 'v':
            return ['cmp', CMP[type(op)]]
    if isinstance(node, ast.Call) and isinstance(node.func, ast.Attribute) and node.func.attr == 'search' \
            and len(node.args) == 2 and isinstance(node.args[0], ast.Name) and node.args[0].id == 'v':
        return ['search']
    raise Miss(ast.dump(node)[:120])


def extract(src):
    tree = ast.parse(src)
    fn = None
    for node in ast.walk(tree):
        if isinstance(node, ast.FunctionDef) and node.name == 'search':
            fn = node
    if fn is None:
        raise Miss('nested function search not found')
    loop = next((n for n in fn.body if isinstance(n, ast.For)), None)
    if loop is None:
        raise Miss('for loop not found')
    chain = []
    node = loop.body[0]
    default = None
    while isinstance(node, ast.If):
        test = node.test
        is_suffix = isinstance(test, ast.Call) and isinstance(test.func, ast.Attribute) and test.func.attr == 'endswith'
        if is_suffix:
            suffix = test.args[0].value
            cut = None
            has_val = False
            cond = None
            for st in node.body:
                if isinstance(st, ast.Assign) and getattr(st.targets[0], 'id', None) == 'k':
                    sl = st.value.slice
                    cut = -ast.literal_eval(sl.upper)
                elif isinstance(st, ast.Assign) and getattr(st.targets[0], 'id', None) == 'val':
                    has_val = True
                elif isinstance(st, ast.If):
                    if not (len(st.body) == 1 and isinstance(st.body[0], ast.Return) and st.body[0].value.value is False):
                        raise Miss('branch body shape')
                    cond = tr(st.test, has_val)
            if cut is None or cond is None:
                raise Miss(f'branch {suffix}')
            chain.append([suffix, cut, cond])
        else:
            # the final `elif <getter> != v: return False`
            default = tr(test, False)
            break
        nxt = node.orelse
        if len(nxt) == 1 and isinstance(nxt[0], ast.If):
            node = nxt[0]
        else:
            break
    if default is None:
        raise Miss('default branch')
    # attribute getter: which names are served by properties rather than __dict__
    special = []
    for n in ast.walk(tree):
        if isinstance(n, ast.FunctionDef) and n.name.endswith('get_task_attribute'):
            for st in n.body:
                if isinstance(st, ast.If) and isinstance(st.test, ast.Compare):
                    c = st.test
                    if isinstance(c.ops[0], ast.Eq) and isinstance(c.comparators[0], ast.Constant):
                        special.append(c.comparators[0].value)
                    elif isinstance(c.ops[0], ast.In) and isinstance(c.comparators[0], (ast.Tuple, ast.List)):
                        special += [e.value for e in c.comparators[0].elts]
    return {'chain': chain, 'default': default, 'special': special}


PINNED = {'chain': [['_not_like_', 10, ['or', ['valNone'], ['search']]], ['_like_', 6, ['or', ['valNone'], ['not', ['search']]]],
                    ['_not_in_', 8, ['inV']], ['_is_none_', 9, ['valNotNone']], ['_is_not_none_', 13, ['valNone']],
                    ['_in_', 4, ['not', ['inV']]], ['_ne_', 4, ['or', ['valNone'], ['not', ['cmp', 'ne']]]],
                    ['_le_', 4, ['or', ['valNone'], ['not', ['cmp', 'le']]]], ['_lt_', 4, ['or', ['valNone'], ['not', ['cmp', 'lt']]]],
                    ['_ge_', 4, ['or', ['valNone'], ['not', ['cmp', 'ge']]]], ['_gt_', 4, ['or', ['valNone'], ['not', ['cmp', 'gt']]]]],
          'default': ['cmp', 'ne'], 'special': ['parent_id', 'id', 'estimate', 'spent']}


def lean_expr(e):
    k = e[0]
    if k in ('valNone', 'valNotNone', 'search', 'inV'):
        return f'.{k}'
    if k == 'cmp':
        return f'(.cmp .{e[1]})'
    if k == 'not':
        return f'(.not {lean_expr(e[1])})'
    return f'(.or {lean_expr(e[1])} {lean_expr(e[2])})'


def to_lean(q):
    rows = ',\n   '.join(f'("{s}", {c}, {lean_expr(e)})' for s, c, e in q['chain'])
    sp = ', '.join(f'"{x}"' for x in q['special'])
    return f"""/- GENERATED by tools/extract.py (extract_query) from /repo/src/pjplan/task.py — do not edit.  Re-checked by `lake build`. -/
import PjVerif.Model.QueryExpr
namespace Pj.Extracted

/-- the keyword-suffix chain of `_ImmutableTaskList.__call__` in source order: (suffix, cut length, reject condition) -/
def queryChain : List (String × Nat × RExpr) :=
  [{rows}]

/-- the branch without suffix: reject condition of the plain keyword -/
def queryDefault : RExpr := {lean_expr(q['default'])}

/-- attribute names served by the getter itself (properties), not by `__dict__` -/
def querySpecial : List String := [{sp}]

end Pj.Extracted
"""
