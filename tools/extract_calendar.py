"""extract_calendar: translate the bodies of the `get_available_units` methods of calendar.py (eight classes), of
`Resource.get_available_units` and of `IResource.get_nearest_availability_date` (resource.py) into terms of PyLite
(lean/PjVerif/Model/PyLite.lean).

Terms are s-expressions (nested Python lists):
  expressions  ["none"] ["num", "<int or n/d>"] ["bool", b] ["var", x] ["field", f] ["isNone", e] ["isNotNone", e]
               ["cmp", op, a, b] ["and", a, b] ["or", a, b] ["not", a] ["bin", op, a, b] ["ite", c, a, b]
               ["units", c, d] ["self"] ["dayStart", d] ["timedelta", e] ["weekday", d] ["index", d, k] ["isIn", k, d]
  statements   ["assign", x, e] ["aug", x, op, e] ["ifElse", c, [then...], [else...]] ["forIn", x, e, [body...]]
               ["while", c, [body...]] ["raiseRuntime"] ["continue"] ["ret", e] ["pass"]
Anything outside this subset raises Miss - the translator never guesses.  Docstrings, type annotations, comments and
formatting are ignored (the translation works on the `ast`).  Name-mangled fields `self.__f` are emitted as "f"."""
import ast
from fractions import Fraction

CLASSES = ['WorkCalendarDisjunction', 'WorkCalendarSum', 'WorkCalendarSub', 'WorkCalendarsMul', 'WorkCalendarDiv',
           'FixedCalendar', 'DirectCalendar', 'WeeklyCalendar']
METHOD = 'get_available_units'
SEARCH = 'get_nearest_availability_date'
SEARCH_PARAMS = ['start_date', 'direction', 'max_days']

CMP = {ast.Lt: 'lt', ast.Gt: 'gt', ast.LtE: 'le', ast.GtE: 'ge', ast.Eq: 'eq', ast.NotEq: 'ne'}
BIN = {ast.Add: 'add', ast.Sub: 'sub', ast.Mult: 'mul', ast.Div: 'div'}


class Miss(Exception):
    pass


def miss(node, why=''):
    raise Miss(f'{why}: {ast.dump(node)[:120]}' if why else ast.dump(node)[:120])


def is_none(n):
    return isinstance(n, ast.Constant) and n.value is None


def is_boolish(n):
    """syntactically certain to evaluate to a bool (PyLite models truthiness of bools only)"""
    if isinstance(n, ast.Compare):
        return True
    if isinstance(n, ast.UnaryOp) and isinstance(n.op, ast.Not):
        return True
    if isinstance(n, ast.BoolOp):
        return all(is_boolish(v) for v in n.values)
    if isinstance(n, ast.Constant) and isinstance(n.value, bool):
        return True
    return False


def sym_key(n):
    """canonical order of the operands of a symmetric operator (`==`, `!=`, `min`, `max`): harmless swaps give one term"""
    return (isinstance(n, ast.Constant), ast.dump(n))


class Tr:
    def __init__(self, self_name, params):
        self.self_name = self_name
        self.params = params            # parameters that may be read (only `date`)
        self.assigned = set()

    # ---- expressions
    def cond(self, n):
        if not is_boolish(n):
            miss(n, 'non-boolean expression in boolean position')
        return self.expr(n)

    def expr(self, n):
        if isinstance(n, ast.Constant):
            v = n.value
            if v is None:
                return ['none']
            if isinstance(v, bool):
                return ['bool', v]
            if isinstance(v, int):
                return ['num', str(v)]
            if isinstance(v, float) and v == v and v not in (float('inf'), float('-inf')):
                f = Fraction(repr(v))   # the decimal the programmer wrote
                return ['num', str(f.numerator) if f.denominator == 1 else f'{f.numerator}/{f.denominator}']
            miss(n, 'constant')
        if isinstance(n, ast.Name) and isinstance(n.ctx, ast.Load):
            if n.id == self.self_name:
                miss(n, 'bare self')
            if n.id not in self.params and n.id not in self.assigned:
                miss(n, 'unknown name')
            return ['var', n.id]
        if isinstance(n, ast.Attribute) and isinstance(n.ctx, ast.Load):
            if isinstance(n.value, ast.Name) and n.value.id == self.self_name:
                return ['field', n.attr[2:] if n.attr.startswith('__') and not n.attr.endswith('__') else n.attr]
            miss(n, 'attribute')
        if isinstance(n, ast.Compare):
            if len(n.ops) != 1:
                miss(n, 'comparison chain')
            l, op, r = n.left, n.ops[0], n.comparators[0]
            if isinstance(op, ast.Is) and is_none(r):
                return ['isNone', self.expr(l)]
            if isinstance(op, ast.IsNot) and is_none(r):
                return ['isNotNone', self.expr(l)]
            if isinstance(op, ast.In):
                return ['isIn', self.expr(l), self.expr(r)]
            if isinstance(op, ast.NotIn):
                return ['not', ['isIn', self.expr(l), self.expr(r)]]
            if type(op) in CMP:
                if isinstance(op, (ast.Eq, ast.NotEq)) and sym_key(l) > sym_key(r):
                    l, r = r, l         # `0 == x` and `x == 0` are one term (names before constants, then alphabetical)
                return ['cmp', CMP[type(op)], self.expr(l), self.expr(r)]
            miss(n, 'comparison')
        if isinstance(n, ast.BoolOp):
            k = 'and' if isinstance(n.op, ast.And) else 'or'
            vals = [self.cond(v) for v in n.values]
            # `a op b op c` evaluates like `a op (b op c)`
            e = vals[-1]
            for v in reversed(vals[:-1]):
                e = [k, v, e]
            return e
        if isinstance(n, ast.UnaryOp) and isinstance(n.op, ast.Not):
            return ['not', self.cond(n.operand)]
        if isinstance(n, ast.UnaryOp) and isinstance(n.op, ast.USub) and isinstance(n.operand, ast.Constant) \
                and type(n.operand.value) in (int, float):
            e = self.expr(n.operand)        # a non-negative literal
            return e if e[1] == '0' else ['num', '-' + e[1]]
        if isinstance(n, ast.BinOp) and type(n.op) in BIN:
            return ['bin', BIN[type(n.op)], self.expr(n.left), self.expr(n.right)]
        if isinstance(n, ast.IfExp):
            return ['ite', self.cond(n.test), self.expr(n.body), self.expr(n.orelse)]
        if isinstance(n, ast.Subscript) and isinstance(n.ctx, ast.Load):
            if isinstance(n.slice, (ast.Slice, ast.Tuple)):
                miss(n, 'slice')
            return ['index', self.expr(n.value), self.expr(n.slice)]
        if isinstance(n, ast.Call) and not n.keywords:
            f = n.func
            if isinstance(f, ast.Attribute) and f.attr == METHOD and isinstance(f.value, ast.Name) \
                    and f.value.id == self.self_name:
                # `self.get_available_units(d)` / `(d, None)`: the second parameter (task) of IResource's method
                if len(n.args) == 1 or (len(n.args) == 2 and is_none(n.args[1])):
                    return ['units', ['self'], self.expr(n.args[0])]
                miss(n, 'call on self')
            if isinstance(f, ast.Attribute) and f.attr == METHOD and len(n.args) == 1:
                return ['units', self.expr(f.value), self.expr(n.args[0])]
            if isinstance(f, ast.Attribute) and f.attr == 'weekday' and len(n.args) == 0:
                return ['weekday', self.expr(f.value)]
            if isinstance(f, ast.Name) and f.id == '_day_start' and len(n.args) == 1:
                return ['dayStart', self.expr(n.args[0])]
        if isinstance(n, ast.Call) and isinstance(n.func, ast.Name) and n.func.id == 'timedelta' and not n.args \
                and len(n.keywords) == 1 and n.keywords[0].arg == 'days':
            return ['timedelta', self.expr(n.keywords[0].value)]
        miss(n, 'expression')

    # ---- statements
    def harmless(self, n):
        """argument of `RuntimeError(...)` whose evaluation cannot itself raise: a string, `self.<attr>`,
        `<datetime variable>.strftime('<format>')`"""
        if isinstance(n, ast.Constant) and isinstance(n.value, str):
            return True
        if isinstance(n, ast.Attribute) and isinstance(n.value, ast.Name) and n.value.id == self.self_name:
            return True
        if isinstance(n, ast.Call) and isinstance(n.func, ast.Attribute) and n.func.attr == 'strftime' \
                and isinstance(n.func.value, ast.Name) and (n.func.value.id in self.params) and not n.keywords \
                and len(n.args) == 1 and isinstance(n.args[0], ast.Constant) and isinstance(n.args[0].value, str):
            return True
        return False

    def target(self, t):
        if not (isinstance(t, ast.Name) and isinstance(t.ctx, ast.Store)):
            miss(t, 'assignment target')
        if t.id == self.self_name:
            miss(t, 'assignment to self')
        return t.id

    def block(self, stmts, in_loop):
        out = []
        for s in stmts:
            out.append(self.stmt(s, in_loop))
        return out

    def stmt(self, s, in_loop):
        if isinstance(s, ast.Assign) and len(s.targets) == 1:
            e = self.expr(s.value)
            x = self.target(s.targets[0])
            self.assigned.add(x)
            return ['assign', x, e]
        if isinstance(s, ast.AnnAssign) and s.value is not None and s.simple:
            e = self.expr(s.value)
            x = self.target(s.target)
            self.assigned.add(x)
            return ['assign', x, e]
        if isinstance(s, ast.AugAssign) and type(s.op) in BIN:
            x = self.target(s.target)
            if x not in self.params and x not in self.assigned:
                miss(s, 'unknown name')
            return ['aug', x, BIN[type(s.op)], self.expr(s.value)]
        if isinstance(s, ast.If):
            c = self.cond(s.test)
            # names assigned in only one branch may be unbound afterwards: PyLite's interpreter then gets stuck,
            # so accepting them here is safe
            t = self.block(s.body, in_loop)
            e = self.block(s.orelse, in_loop)
            return ['ifElse', c, t, e]
        if isinstance(s, ast.For):
            if s.orelse:
                miss(s, 'for-else')
            it = self.expr(s.iter)
            x = self.target(s.target)
            self.assigned.add(x)
            return ['forIn', x, it, self.block(s.body, True)]
        if isinstance(s, ast.While):
            if s.orelse:
                miss(s, 'while-else')
            return ['while', self.cond(s.test), self.block(s.body, True)]
        if isinstance(s, ast.Raise):
            e = s.exc
            if s.cause is None and isinstance(e, ast.Call) and isinstance(e.func, ast.Name) \
                    and e.func.id == 'RuntimeError' and not e.keywords and all(self.harmless(a) for a in e.args):
                return ['raiseRuntime']
            miss(s, 'raise')
        if isinstance(s, ast.Continue):
            if not in_loop:
                miss(s, 'continue outside loop')
            return ['continue']
        if isinstance(s, ast.Return):
            return ['ret', ['none'] if s.value is None else self.expr(s.value)]
        if isinstance(s, ast.Pass):
            return ['pass']
        miss(s, 'statement')


def strip_docstring(body):
    if body and isinstance(body[0], ast.Expr) and isinstance(body[0].value, ast.Constant) \
            and isinstance(body[0].value.value, str):
        return body[1:]
    return body


def method_of(tree, cls, method=METHOD):
    found = [c for c in tree.body if isinstance(c, ast.ClassDef) and c.name == cls]
    if len(found) != 1:
        raise Miss(f'class {cls}: {len(found)} definitions')
    fns = [f for f in found[0].body if isinstance(f, (ast.FunctionDef, ast.AsyncFunctionDef)) and f.name == method]
    if len(fns) != 1 or not isinstance(fns[0], ast.FunctionDef):
        raise Miss(f'{cls}.{method}: {len(fns)} definitions')
    return fns[0]


def translate_method(fn, extra_ok):
    """`def get_available_units(self, date)`; `extra_ok`: further parameters are allowed if the body never reads them"""
    a = fn.args
    if fn.decorator_list or a.vararg or a.kwarg or a.kwonlyargs or a.posonlyargs:
        raise Miss(f'{fn.name}: signature')
    names = [x.arg for x in a.args]
    if len(names) < 2 or names[1] != 'date' or (len(names) > 2 and not extra_ok):
        raise Miss(f'{fn.name}: parameters {names}')
    if len(a.defaults) != len(names) - 2 or not all(is_none(d) for d in a.defaults):
        raise Miss(f'{fn.name}: defaults')
    tr = Tr(names[0], {'date'})
    for x in names[2:]:
        # an ignored parameter: any occurrence in the body (read or write) is outside the subset
        for n in ast.walk(fn):
            if isinstance(n, ast.Name) and n.id == x:
                raise Miss(f'{fn.name}: parameter {x} is used')
    no_nested_scope(fn)
    return tr.block(strip_docstring(fn.body), False)


def no_nested_scope(fn):
    for n in ast.walk(fn):
        if isinstance(n, (ast.Global, ast.Nonlocal, ast.Lambda, ast.FunctionDef, ast.ClassDef)) and n is not fn:
            raise Miss(f'{fn.name}: nested scope')


def translate_search(fn):
    """`def get_nearest_availability_date(self, start_date, direction, max_days=...)`: the parameter names are fixed
    (the Lean side binds them by name); the default of `max_days` is extracted separately (Extracted/Sched.lean)"""
    a = fn.args
    if fn.decorator_list or a.vararg or a.kwarg or a.kwonlyargs or a.posonlyargs:
        raise Miss(f'{fn.name}: signature')
    names = [x.arg for x in a.args]
    if names[1:] != SEARCH_PARAMS:
        raise Miss(f'{fn.name}: parameters {names}')
    no_nested_scope(fn)
    return Tr(names[0], set(SEARCH_PARAMS)).block(strip_docstring(fn.body), False)


def extract(calendar_src, resource_src):
    """class name -> PyLite term of its `get_available_units` body"""
    out = {}
    ctree = ast.parse(calendar_src)
    for cls in CLASSES:
        out[cls] = translate_method(method_of(ctree, cls), False)
    rtree = ast.parse(resource_src)
    out['Resource'] = translate_method(method_of(rtree, 'Resource'), True)
    out['IResource'] = translate_search(method_of(rtree, 'IResource', SEARCH))
    return out


def _accum(op):
    return [['assign', 'units', ['none']],
            ['forIn', 'c', ['field', 'calendars'],
             [['assign', 'c_units', ['units', ['var', 'c'], ['var', 'date']]],
              ['ifElse', ['isNone', ['var', 'c_units']], [['continue']], []],
              ['ifElse', ['isNone', ['var', 'units']], [['assign', 'units', ['var', 'c_units']]],
               [['aug', 'units', op, ['var', 'c_units']]]]]]]


def _window(out):
    return [['ifElse', ['and', ['isNotNone', ['field', 'start']], ['cmp', 'lt', ['var', 'date'], ['field', 'start']]],
             [['ret', out]], []],
            ['ifElse', ['and', ['isNotNone', ['field', 'end']], ['cmp', 'gt', ['var', 'date'], ['field', 'end']]],
             [['ret', out]], []]]


PINNED = {
    'WorkCalendarDisjunction': [
        ['forIn', 'c', ['field', 'calendars'],
         [['assign', 'units', ['units', ['var', 'c'], ['var', 'date']]],
          ['ifElse', ['and', ['isNotNone', ['var', 'units']], ['cmp', 'gt', ['var', 'units'], ['num', '0']]],
           [['ret', ['var', 'units']]], []]]],
        ['ret', ['none']]],
    'WorkCalendarSum': _accum('add') + [['ret', ['var', 'units']]],
    'WorkCalendarSub': _accum('sub') + [
        ['ifElse', ['or', ['isNone', ['var', 'units']], ['cmp', 'lt', ['var', 'units'], ['num', '0']]],
         [['ret', ['none']]], []],
        ['ret', ['var', 'units']]],
    'WorkCalendarsMul': _accum('mul') + [['ret', ['var', 'units']]],
    'WorkCalendarDiv': _accum('div') + [['ret', ['var', 'units']]],
    'FixedCalendar': _window(['num', '0']) + [['ret', ['field', 'units']]],
    'DirectCalendar': [
        ['assign', 'key', ['dayStart', ['var', 'date']]],
        ['ifElse', ['isIn', ['var', 'key'], ['field', 'units']],
         [['ret', ['index', ['field', 'units'], ['var', 'key']]]],
         [['ret', ['none']]]]],
    'WeeklyCalendar': _window(['none']) + [['ret', ['index', ['field', 'day_hours'], ['weekday', ['var', 'date']]]]],
    'Resource': [
        ['assign', 'units', ['units', ['field', 'calendar'], ['var', 'date']]],
        ['ret', ['ite', ['isNone', ['var', 'units']], ['num', '0'], ['var', 'units']]]],
    'IResource': [
        ['assign', 'step', ['num', '0']],
        ['while', ['cmp', 'lt', ['var', 'step'], ['var', 'max_days']],
         [['ifElse', ['cmp', 'lt', ['var', 'direction'], ['num', '0']],
           [['ifElse', ['cmp', 'gt', ['units', ['self'], ['bin', 'sub', ['var', 'start_date'], ['timedelta', ['num', '1']]]],
                        ['num', '0']],
             [['ret', ['var', 'start_date']]], []]],
           [['ifElse', ['cmp', 'gt', ['units', ['self'], ['var', 'start_date']], ['num', '0']],
             [['ret', ['var', 'start_date']]], []]]],
          ['aug', 'start_date', 'add', ['timedelta', ['var', 'direction']]],
          ['aug', 'step', 'add', ['num', '1']]]],
        ['raiseRuntime']],
}


# ---- Lean output

def lean_str(s):
    if not all(c.isalnum() or c == '_' for c in s):
        raise Miss(f'identifier {s!r}')
    return '"' + s + '"'


def lean_expr(e):
    k = e[0]
    if k in ('none', 'self'):
        return f'.{k}'
    if k == 'num':
        return f'(.num {e[1]})' if e[1].isdigit() else f'(.num ({e[1]}))'
    if k == 'bool':
        return f'(.bool {"true" if e[1] else "false"})'
    if k in ('var', 'field'):
        return f'(.{k} {lean_str(e[1])})'
    if k in ('cmp', 'bin'):
        return f'(.{k} .{e[1]} {lean_expr(e[2])} {lean_expr(e[3])})'
    if k in ('isNone', 'isNotNone', 'not', 'dayStart', 'timedelta', 'weekday', 'and', 'or', 'ite', 'units', 'index',
             'isIn'):
        return f'(.{k} ' + ' '.join(lean_expr(x) for x in e[1:]) + ')'
    raise Miss(f'lean_expr {e!r}')


def lean_block(b, ind):
    if not b:
        return '[]'
    pad = ' ' * (ind + 1)
    return '[' + (',\n' + pad).join(lean_stmt(s, ind + 1) for s in b) + ']'


def lean_stmt(s, ind):
    k = s[0]
    if k == 'assign':
        return f'.assign {lean_str(s[1])} {lean_expr(s[2])}'
    if k == 'aug':
        return f'.aug {lean_str(s[1])} .{s[2]} {lean_expr(s[3])}'
    if k == 'ifElse':
        pad = ' ' * (ind + 2)
        return f'.ifElse {lean_expr(s[1])}\n{pad}{lean_block(s[2], ind + 2)}\n{pad}{lean_block(s[3], ind + 2)}'
    if k == 'forIn':
        pad = ' ' * (ind + 2)
        return f'.forIn {lean_str(s[1])} {lean_expr(s[2])}\n{pad}{lean_block(s[3], ind + 2)}'
    if k == 'while':
        pad = ' ' * (ind + 2)
        return f'.while {lean_expr(s[1])}\n{pad}{lean_block(s[2], ind + 2)}'
    if k == 'raiseRuntime':
        return '.raiseRuntime'
    if k == 'continue':
        return '.continue'
    if k == 'ret':
        return f'.ret {lean_expr(s[1])}'
    if k == 'pass':
        return '.pass'
    raise Miss(f'lean_stmt {s!r}')


def to_lean(d):
    defs = []
    for cls in CLASSES + ['Resource', 'IResource']:
        origin = 'calendar.py' if cls in CLASSES else 'resource.py'
        method = SEARCH if cls == 'IResource' else METHOD
        defs.append(f'/-- {origin}: `{cls}.{method}` -/\n'
                    f'def src_{cls} : List PyLite.Stmt :=\n  {lean_block(d[cls], 2)}\n')
    return ('/- GENERATED by tools/extract.py (extract_calendar) from /repo/src/pjplan/calendar.py and resource.py — '
            'do not edit.  Re-checked by `lake build`. -/\n'
            'import PjVerif.Model.PyLite\nnamespace Pj.Extracted\n\n' + '\n'.join(defs) + '\nend Pj.Extracted\n')


if __name__ == '__main__':
    # python3 extract_calendar.py <calendar.py> <resource.py> [<out.lean>]: translate (no pinned fallback) and print/write
    import sys
    d = extract(open(sys.argv[1]).read(), open(sys.argv[2]).read())
    text = to_lean(d)
    if len(sys.argv) > 3:
        with open(sys.argv[3], 'w') as f:
            f.write(text)
    else:
        sys.stdout.write(text)
