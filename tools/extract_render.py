"""extract_render: translate the Mermaid renderers - viz/mermaid/network.py (`MermaidNetwork.__label`, `__src`) and
viz/mermaid/gantt.py (`MermaidGantt.__mermaid_task_state`, `__mermaid_task`, `__src`) - into a PROGRAM of PyLite
(lean/PjVerif/Model/PyLite.lean, pass layer; `progH`).  No construct is added to PyLite: strings are atoms `.str` and every
string operation is a library PRIMITIVE ["prim", name, args] whose meaning is stated on the Lean side
(Lemmas/RenderSrc.lean, `renderPrim`).  Anything outside the subset raises Miss.

  MermaidNetwork.__label(name)            key label          (staticmethod)
  MermaidNetwork.__src(self)              key network_src
  MermaidGantt.__mermaid_task_state(task) key task_state     (staticmethod)
  MermaidGantt.__mermaid_task(self, t)    key mermaid_task
  MermaidGantt.__src(self)                key gantt_src

Checked: the classes have no base class / decorator; `__init__` stores its parameters (`self.wbs = wbs`, …; `self.title` is
`title if title else None`) and NO other method of the class assigns an attribute of `self`; `self.__f(args)` is the call of
the function of that name (a staticmethod does not receive `self`).

Strings.
  'text'                      ["prim", "lit:text", []]
  a + b / x += b, a str       ["prim", "concat", [a, b]]     (`x += b` is `x = concat(x, b)`: `x` a local holding a str)
  f"{a}text" / 'a{}b'.format(x)   concat of ["prim", "str", [a]], …   (only `{}` / `{expr}` without conversion or format
                              spec: format(x, '') = str(x); `{{` is the text `{`)
  s.replace(a, b)             ["prim", "replace", [s, a, b]]
  str(x)  v.strftime('fmt')   ["prim", "str", [x]], ["prim", "strftime:fmt", [v]]
  datetime.now()              ["prim", "datetime.now", []]    (the clock is a parameter of the run)
Objects.  `self.a` for an attribute stored by `__init__` is ["prim", "self.a", [self]]; `w.tasks` is ["prim", "tasks", [w]];
`t.f` for f in TASK_ATTRS is ["prim", f, [t]] (`t.__dict__` = the list of its keys, only used with `in`); the dynamic
attributes `t.network_bar_style`, `t.gantt_section` are ["prim", "__getattribute__", [t, 'name']];
`self.__dict_to_style(d)` (NOT translated: the model takes the style text as given) is ["prim", "dict_to_style", [d]].
Truth.  `if e:` / `c if e else d` need a bool in PyLite: comparisons, `in`, `is None` and `task.milestone` are bools;
an attribute of `self` in boolean position is ["prim", "truth", [e]] (Python's `bool(e)`); a local that is None or a set is
`e is not None and len(e) != 0`.
Sets.  `set([elt for x in it])` is ["setOf", ["listComp", elt, x, it, True]] (the items without repetitions, as a list
value; only `len`, truth and nothing else is applied to it).
Dict of lists.  A local `d = {}` that is only used as `d.setdefault(k, []).append(x)` (k a local) and
`for k, v in d.items(): …` is a dict of BOXES: the first is
    if k not in d: d[k] = <new box []>        then        d[k].append(x)
the second `for k in d: v = <the items of d[k]>; …` (the body does not append)."""
import ast
import string

from extract_calendar import Miss, miss, is_none, lean_str, CMP

FUNS = ['label', 'network_src', 'task_state', 'mermaid_task', 'gantt_src']
NET = {'__label': 'label', '__src': 'network_src'}
GANTT = {'__mermaid_task_state': 'task_state', '__mermaid_task': 'mermaid_task', '__src': 'gantt_src'}
STATIC = {'label', 'task_state'}
OPAQUE = {'__dict_to_style': 'dict_to_style'}
TASK_ATTRS = {'name', 'id', 'predecessors', 'milestone', 'start', 'end', '__dict__'}
BOOL_ATTRS = {'milestone'}
DYN_ATTRS = {'network_bar_style', 'gantt_section'}
NET_INIT = {'wbs': 'wbs', 'height': 'height'}
GANTT_INIT = {'wbs': 'wbs', 'weekends': 'weekends', 'tick_interval': 'tick_interval', 'title': 'title if title else None',
              'height': 'height'}


def arg_list(items):
    e = ['listNil']
    for a in reversed(items):
        e = ['listCons', a, e]
    return e


def lit(s):
    return ['prim', 'lit:' + s, ['listNil']]


def concat_all(parts):
    if not parts:
        return lit('')
    e = parts[0]
    for p in parts[1:]:
        e = ['prim', 'concat', arg_list([e, p])]
    return e


class Tr:
    def __init__(self, cls, key, node):
        self.cls, self.key, self.node = cls, key, node
        self.params = [a.arg for a in node.args.args]
        self.known = set(self.params)
        self.kind = {}          # local -> 'str' | 'setnone' | 'boxdict' | 'any'
        for n in ast.walk(node):
            if isinstance(n, (ast.Lambda, ast.Global, ast.Nonlocal, ast.With, ast.While, ast.Delete, ast.NamedExpr,
                              ast.Await, ast.AsyncFor, ast.AsyncWith, ast.Starred, ast.Yield, ast.YieldFrom, ast.Try,
                              ast.ClassDef, ast.Break, ast.Continue, ast.GeneratorExp, ast.DictComp, ast.SetComp)):
                raise Miss(f'{key}: {type(n).__name__}')
            if isinstance(n, ast.FunctionDef) and n is not node:
                raise Miss(f'{key}: nested def')
        body = node.body
        self.body = self.block(body)

    def assign_kind(self, x, k):
        old = self.kind.get(x)
        if old is None or old == k:
            self.kind[x] = k
        elif {old, k} <= {'setnone'}:
            pass
        else:
            raise Miss(f'{self.key}: the local {x} changes its kind ({old} / {k})')

    # ---- types
    def is_str(self, n):
        if isinstance(n, ast.Constant):
            return isinstance(n.value, str)
        if isinstance(n, ast.JoinedStr):
            return True
        if isinstance(n, ast.Name):
            return self.kind.get(n.id) == 'str'
        if isinstance(n, ast.BinOp) and isinstance(n.op, ast.Add):
            return self.is_str(n.left) or self.is_str(n.right)
        if isinstance(n, ast.Call):
            f = n.func
            if isinstance(f, ast.Name) and f.id == 'str':
                return True
            if isinstance(f, ast.Attribute) and f.attr in ('format', 'replace', 'strftime'):
                return True
            if self.method_call(n) in ('label', 'mermaid_task'):
                return True
        return False

    def is_self_attr(self, n):
        return isinstance(n, ast.Attribute) and isinstance(n.value, ast.Name) and n.value.id == 'self' \
            and 'self' in self.params and n.attr in self.cls.init

    def method_call(self, n):
        f = n.func
        if isinstance(f, ast.Attribute) and isinstance(f.value, ast.Name) and f.value.id == 'self' \
                and 'self' in self.params:
            if f.attr in self.cls.methods:
                return self.cls.methods[f.attr]
            if f.attr in OPAQUE:
                return OPAQUE[f.attr]
        return None

    # ---- boolean position
    def test(self, n):
        if isinstance(n, (ast.Compare, ast.BoolOp)) or (isinstance(n, ast.UnaryOp) and isinstance(n.op, ast.Not)):
            return self.expr(n)
        if isinstance(n, ast.Attribute) and n.attr in BOOL_ATTRS and not self.is_self_attr(n):
            return self.expr(n)
        if self.is_self_attr(n):
            return ['prim', 'truth', arg_list([self.expr(n)])]
        if isinstance(n, ast.Name) and self.kind.get(n.id) == 'setnone':
            return ['and', ['isNotNone', ['var', n.id]], ['cmp', 'ne', ['len', ['var', n.id]], ['num', '0']]]
        miss(n, 'truth value')

    # ---- expressions
    def expr(self, n):
        if isinstance(n, ast.Constant):
            v = n.value
            if v is None:
                return ['none']
            if isinstance(v, bool):
                return ['bool', v]
            if isinstance(v, int):
                return ['num', str(v)]
            if isinstance(v, str):
                return lit(v)
            miss(n, 'constant')
        if isinstance(n, ast.Name) and isinstance(n.ctx, ast.Load):
            if n.id in self.known:
                return ['var', n.id]
            miss(n, 'unknown name')
        if isinstance(n, ast.Attribute) and isinstance(n.ctx, ast.Load):
            if self.is_self_attr(n):
                return ['prim', 'self.' + n.attr, arg_list([['var', 'self']])]
            if isinstance(n.value, ast.Name) and n.value.id == 'self':
                miss(n, 'attribute of self')
            if n.attr == 'tasks' and self.is_self_attr(n.value) and n.value.attr == 'wbs':
                return ['prim', 'tasks', arg_list([self.expr(n.value)])]
            if n.attr in TASK_ATTRS:
                return ['prim', n.attr, arg_list([self.expr(n.value)])]
            if n.attr in DYN_ATTRS:
                return ['prim', '__getattribute__', arg_list([self.expr(n.value), lit(n.attr)])]
            miss(n, 'attribute')
        if isinstance(n, ast.Compare):
            if len(n.ops) != 1:
                miss(n, 'comparison chain')
            l, op, r = n.left, n.ops[0], n.comparators[0]
            if isinstance(op, ast.Is) and is_none(r):
                return ['isNone', self.expr(l)]
            if isinstance(op, ast.IsNot) and is_none(r):
                return ['isNotNone', self.expr(l)]
            if isinstance(op, (ast.In, ast.NotIn)):
                if isinstance(r, ast.Attribute) and r.attr == '__dict__':
                    e = ['isIn', self.expr(l), self.expr(r)]
                else:
                    miss(n, 'membership')
                return e if isinstance(op, ast.In) else ['not', e]
            if type(op) in CMP:
                return ['cmp', CMP[type(op)], self.expr(l), self.expr(r)]
            miss(n, 'comparison')
        if isinstance(n, ast.BoolOp):
            k = 'and' if isinstance(n.op, ast.And) else 'or'
            vals = [self.test(v) for v in n.values]
            e = vals[-1]
            for v in reversed(vals[:-1]):
                e = [k, v, e]
            return e
        if isinstance(n, ast.UnaryOp) and isinstance(n.op, ast.Not):
            return ['not', self.test(n.operand)]
        if isinstance(n, ast.BinOp):
            if isinstance(n.op, ast.Add) and self.is_str(n):
                return ['prim', 'concat', arg_list([self.expr(n.left), self.expr(n.right)])]
            miss(n, 'operator')
        if isinstance(n, ast.IfExp):
            return ['ite', self.test(n.test), self.expr(n.body), self.expr(n.orelse)]
        if isinstance(n, ast.JoinedStr):
            parts = []
            for p in n.values:
                if isinstance(p, ast.Constant) and isinstance(p.value, str):
                    parts.append(lit(p.value))
                elif isinstance(p, ast.FormattedValue) and p.conversion == -1 and p.format_spec is None:
                    parts.append(['prim', 'str', arg_list([self.expr(p.value)])])
                else:
                    miss(n, 'f-string')
            return concat_all(parts)
        if isinstance(n, ast.Dict) and not n.keys:
            return ['dictNil']
        if isinstance(n, ast.Call):
            return self.call(n)
        miss(n, 'expression')

    def list_comp(self, n):
        if not isinstance(n, ast.ListComp) or len(n.generators) != 1:
            miss(n, 'comprehension')
        g = n.generators[0]
        if g.ifs or g.is_async or not isinstance(g.target, ast.Name) or g.target.id in self.params \
                or self.kind.get(g.target.id) is not None:
            miss(n, 'comprehension')
        it = self.expr(g.iter)
        had = g.target.id in self.known
        self.known.add(g.target.id)
        elt = self.expr(n.elt)
        if not had:
            self.known.discard(g.target.id)
        return ['listComp', elt, g.target.id, it, ['bool', True]]

    def call(self, n):
        if n.keywords:
            miss(n, 'keyword arguments')
        f, args = n.func, n.args
        k = self.method_call(n)
        if k is not None:
            if k in OPAQUE.values():
                if len(args) != 1:
                    miss(n, 'number of arguments')
                return ['prim', k, arg_list([self.expr(args[0])])]
            want = self.cls.mod.params[k]
            actual = [self.expr(a) for a in args]
            if k not in STATIC:
                actual = [['var', 'self']] + actual
            if len(actual) != len(want):
                miss(n, 'number of arguments')
            return ['callFn', FUNS.index(k), arg_list(actual)]
        if isinstance(f, ast.Name):
            if f.id == 'len' and len(args) == 1:
                a = args[0]
                if (isinstance(a, ast.Attribute) and a.attr == 'predecessors') or \
                        (isinstance(a, ast.Name) and self.kind.get(a.id) == 'setnone'):
                    return ['len', self.expr(a)]
                miss(n, 'len')
            if f.id == 'str' and len(args) == 1:
                return ['prim', 'str', arg_list([self.expr(args[0])])]
            if f.id == 'set' and len(args) == 1:
                return ['setOf', self.list_comp(args[0])]
            miss(n, 'call')
        if isinstance(f, ast.Attribute):
            o = f.value
            if f.attr == 'now' and not args and isinstance(o, ast.Name) and o.id == 'datetime' \
                    and self.cls.mod.datetime_ok and 'datetime' not in self.known:
                return ['prim', 'datetime.now', ['listNil']]
            if f.attr == 'replace' and len(args) == 2:
                return ['prim', 'replace', arg_list([self.expr(o)] + [self.expr(a) for a in args])]
            if f.attr == 'strftime' and len(args) == 1 and isinstance(args[0], ast.Constant) \
                    and isinstance(args[0].value, str):
                return ['prim', 'strftime:' + args[0].value, arg_list([self.expr(o)])]
            if f.attr == 'format' and isinstance(o, ast.Constant) and isinstance(o.value, str):
                parts, i = [], 0
                for text, field, spec, conv in string.Formatter().parse(o.value):
                    if text:
                        parts.append(lit(text))
                    if field is not None:
                        if field != '' or spec or conv is not None or i >= len(args):
                            miss(n, 'format field')
                        parts.append(['prim', 'str', arg_list([self.expr(args[i])])])
                        i += 1
                if i != len(args):
                    miss(n, 'format arguments')
                return concat_all(parts)
        miss(n, 'call')

    # ---- statements
    def block(self, stmts):
        out = []
        for s in stmts:
            out += self.stmt(s)
        return out

    def stmt(self, s):
        if isinstance(s, ast.Pass):
            return [['pass']]
        if isinstance(s, ast.Return):
            return [['ret', ['none'] if s.value is None else self.expr(s.value)]]
        if isinstance(s, ast.Assign):
            if len(s.targets) != 1 or not isinstance(s.targets[0], ast.Name):
                miss(s, 'assignment')
            x = s.targets[0].id
            if x in self.params:
                miss(s, 'assignment to a parameter')
            v = s.value
            e = self.expr(v)
            if isinstance(v, ast.Dict):
                self.assign_kind(x, 'boxdict')
            elif isinstance(v, ast.Call) and isinstance(v.func, ast.Name) and v.func.id == 'set':
                self.assign_kind(x, 'setnone')
            elif is_none(v) and self.kind.get(x) == 'setnone':
                pass
            elif self.is_str(v):
                self.assign_kind(x, 'str')
            else:
                self.assign_kind(x, 'any')
            self.known.add(x)
            return [['assign', x, e]]
        if isinstance(s, ast.AugAssign):
            if not isinstance(s.target, ast.Name) or not isinstance(s.op, ast.Add) \
                    or self.kind.get(s.target.id) != 'str':
                miss(s, 'augmented assignment')
            x = s.target.id
            return [['assign', x, ['prim', 'concat', arg_list([['var', x], self.expr(s.value)])]]]
        if isinstance(s, ast.If):
            return [['ifElse', self.test(s.test), self.block(s.body), self.block(s.orelse)]]
        if isinstance(s, ast.For):
            if s.orelse:
                miss(s, 'for-else')
            t = s.target
            if isinstance(t, ast.Name):
                if t.id in self.params or self.kind.get(t.id) not in (None, 'loop'):
                    miss(s, 'for target')
                e = self.expr(s.iter)
                self.kind[t.id] = 'loop'
                self.known.add(t.id)
                return [['forIn', t.id, e, self.block(s.body)]]
            if isinstance(t, ast.Tuple) and len(t.elts) == 2 and all(isinstance(x, ast.Name) for x in t.elts):
                k, v = t.elts[0].id, t.elts[1].id
                it = s.iter
                if not (isinstance(it, ast.Call) and isinstance(it.func, ast.Attribute) and it.func.attr == 'items'
                        and not it.args and isinstance(it.func.value, ast.Name)
                        and self.kind.get(it.func.value.id) == 'boxdict'):
                    miss(s, 'for over items')
                d = it.func.value.id
                for x in (k, v):
                    if x in self.params or self.kind.get(x) not in (None, 'loop'):
                        miss(s, 'for target')
                for m in ast.walk(s):
                    if isinstance(m, ast.Attribute) and m.attr in ('append', 'setdefault'):
                        miss(s, 'the lists change while they are iterated')
                self.kind[k] = self.kind[v] = 'loop'
                self.known |= {k, v}
                return [['forIn', k, ['var', d],
                         [['assign', v, ['items', ['dictIndex', ['var', d], ['var', k]]]]] + self.block(s.body)]]
            miss(s, 'for')
        if isinstance(s, ast.Expr):
            v = s.value
            if isinstance(v, ast.Constant) and isinstance(v.value, str):
                return []
            # d.setdefault(k, []).append(x)
            if isinstance(v, ast.Call) and isinstance(v.func, ast.Attribute) and v.func.attr == 'append' \
                    and len(v.args) == 1 and not v.keywords:
                c = v.func.value
                if isinstance(c, ast.Call) and isinstance(c.func, ast.Attribute) and c.func.attr == 'setdefault' \
                        and isinstance(c.func.value, ast.Name) and self.kind.get(c.func.value.id) == 'boxdict' \
                        and len(c.args) == 2 and isinstance(c.args[0], ast.Name) and c.args[0].id in self.known \
                        and isinstance(c.args[1], ast.List) and not c.args[1].elts and not c.keywords:
                    d, k = c.func.value.id, c.args[0].id
                    return [['ifElse', ['not', ['dictHas', ['var', k], ['var', d]]],
                             [['assign', d, ['dictSet', ['var', d], ['var', k], ['newBox', ['listNil']]]]], []],
                            ['boxAppend', ['dictIndex', ['var', d], ['var', k]], self.expr(v.args[0])]]
        miss(s, 'statement')


class Cls:
    pass


class Mod:
    pass


def load_class(mod, src, name, methods, init):
    tree = ast.parse(src)
    mod.datetime_ok = mod.datetime_ok or any(
        isinstance(n, ast.ImportFrom) and n.module == 'datetime'
        and any(a.name == 'datetime' and a.asname is None for a in n.names) for n in tree.body)
    for n in tree.body:
        if isinstance(n, (ast.FunctionDef, ast.Assign)):
            raise Miss(f'{name}: module-level definition')
    cs = [n for n in tree.body if isinstance(n, ast.ClassDef) and n.name == name]
    if len(cs) != 1 or cs[0].bases or cs[0].keywords or cs[0].decorator_list:
        raise Miss(f'class {name}')
    if len([n for n in tree.body if isinstance(n, ast.ClassDef)]) != 1:
        raise Miss(f'{name}: other classes')
    c = Cls()
    c.mod, c.name, c.methods, c.init = mod, name, methods, set(init)
    c.nodes = {}
    seen = set()
    for b in cs[0].body:
        if isinstance(b, ast.Expr) and isinstance(b.value, ast.Constant):
            continue
        if not isinstance(b, ast.FunctionDef) or b.name in seen:
            raise Miss(f'{name}: class-level statement')
        seen.add(b.name)
        stores = [m for m in ast.walk(b) if isinstance(m, ast.Attribute) and isinstance(m.ctx, (ast.Store, ast.Del))]
        if b.name == '__init__':
            got = {}
            for st in b.body:
                tgt = st.targets[0] if isinstance(st, ast.Assign) and len(st.targets) == 1 else \
                    st.target if isinstance(st, ast.AnnAssign) else None
                if not (isinstance(tgt, ast.Attribute) and isinstance(tgt.value, ast.Name) and tgt.value.id == 'self') \
                        or tgt.attr in got or st.value is None:
                    raise Miss(f'{name}.__init__')
                got[tgt.attr] = ast.unparse(st.value)
            if got != init:
                raise Miss(f'{name}.__init__: {got}')
            continue
        if stores:
            raise Miss(f'{name}.{b.name} assigns an attribute')
        if b.name in methods:
            k = methods[b.name]
            decos = [ast.unparse(d) for d in b.decorator_list]
            a = b.args
            if decos != (['staticmethod'] if k in STATIC else []) or a.vararg or a.kwonlyargs or a.posonlyargs \
                    or a.kwarg or a.defaults or (k not in STATIC and (not a.args or a.args[0].arg != 'self')) \
                    or (k in STATIC and any(x.arg == 'self' for x in a.args)):
                raise Miss(f'{name}.{b.name}: signature')
            c.nodes[k] = b
    if '__init__' not in seen or set(c.nodes) != set(methods.values()):
        raise Miss(f'{name}: methods')
    if not set(OPAQUE) <= seen and name == 'MermaidNetwork':
        raise Miss(f'{name}: __dict_to_style')
    return c


def extract(network_src, gantt_src):
    mod = Mod()
    mod.datetime_ok = False
    net = load_class(mod, network_src, 'MermaidNetwork', NET, NET_INIT)
    gan = load_class(mod, gantt_src, 'MermaidGantt', GANTT, GANTT_INIT)
    mod.params = {}
    for c in (net, gan):
        for k, f in c.nodes.items():
            mod.params[k] = [x.arg for x in f.args.args]
    d = {}
    for c in (net, gan):
        for k, f in c.nodes.items():
            tr = Tr(c, k, f)
            d[k] = {'origin': f'{c.name}.{f.name}', 'params': mod.params[k], 'body': tr.body}
    d['funs'] = list(FUNS)
    return d


# ---- Lean output

def lean_qstr(s):
    out = ''
    for ch in s:
        if ch == '\n':
            out += '\\n'
        elif ch in '"\\':
            out += '\\' + ch
        elif 32 <= ord(ch) < 127:
            out += ch
        else:
            raise Miss(f'string {s!r}')
    return '"' + out + '"'


def lean_expr(e):
    k = e[0]
    if k in ('none', 'listNil', 'dictNil'):
        return f'.{k}'
    if k == 'num':
        return f'(.num {e[1]})' if e[1].isdigit() else f'(.num ({e[1]}))'
    if k == 'bool':
        return f'(.bool {"true" if e[1] else "false"})'
    if k == 'var':
        return f'(.var {lean_str(e[1])})'
    if k == 'callFn':
        return f'(.callFn fn_{FUNS[e[1]]} {lean_expr(e[2])})'
    if k == 'prim':
        return f'(.prim {lean_qstr(e[1])} {lean_expr(e[2])})'
    if k == 'cmp':
        return f'(.cmp .{e[1]} {lean_expr(e[2])} {lean_expr(e[3])})'
    if k == 'listComp':
        return f'(.listComp {lean_expr(e[1])} {lean_str(e[2])} {lean_expr(e[3])} {lean_expr(e[4])})'
    if k in ('isNone', 'isNotNone', 'not', 'and', 'or', 'isIn', 'listCons', 'len', 'ite', 'newBox', 'items', 'setOf',
             'dictSet', 'dictHas', 'dictIndex'):
        return f'(.{k} ' + ' '.join(lean_expr(x) for x in e[1:]) + ')'
    raise Miss(f'lean_expr {e!r}')


def lean_block(b, ind):
    if not b:
        return '[]'
    pad = ' ' * (ind + 1)
    return '[' + (',\n' + pad).join(lean_stmt(s, ind + 1) for s in b) + ']'


def lean_stmt(s, ind):
    k = s[0]
    pad = ' ' * (ind + 2)
    if k == 'assign':
        return f'.assign {lean_str(s[1])} {lean_expr(s[2])}'
    if k == 'ifElse':
        return f'.ifElse {lean_expr(s[1])}\n{pad}{lean_block(s[2], ind + 2)}\n{pad}{lean_block(s[3], ind + 2)}'
    if k == 'forIn':
        return f'.forIn {lean_str(s[1])} {lean_expr(s[2])}\n{pad}{lean_block(s[3], ind + 2)}'
    if k in ('ret', 'expr'):
        return f'.{k} {lean_expr(s[1])}'
    if k == 'boxAppend':
        return f'.boxAppend {lean_expr(s[1])} {lean_expr(s[2])}'
    if k == 'pass':
        return '.pass'
    raise Miss(f'lean_stmt {s!r}')


def to_lean(d):
    out = ('/- GENERATED by tools/extract.py (extract_render) from /repo/src/pjplan/viz/mermaid/network.py and gantt.py — '
           'do not edit.  Re-checked by `lake build`. -/\n'
           'import PjVerif.Model.PyLite\nnamespace Pj.Extracted.Render\nopen Pj\n\n'
           '/-! the function table of the Mermaid renderers: `callFn k` calls the k-th function below -/\n')
    for i, key in enumerate(d['funs']):
        out += f'def fn_{key} : Nat := {i}\n'
    out += '\n'
    for key in d['funs']:
        m = d[key]
        params = ', '.join('"' + p + '"' for p in m['params'])
        out += (f'/-- `{m["origin"]}`, parameters ({", ".join(m["params"])}) -/\n'
                f'def src_{key} : List PyLite.Stmt :=\n  {lean_block(m["body"], 2)}\n\n'
                f'def src_{key}_params : List String := [{params}]\n\n')
    out += ('/-- the program: function number ↦ parameters and body -/\n'
            'def renderFuns : PyLite.FunTable := fun k =>\n')
    for i, key in enumerate(d['funs']):
        out += f'  {"if" if i == 0 else "else if"} k = fn_{key} then some (src_{key}_params, src_{key})\n'
    out += '  else none\n\n'
    return out + 'end Pj.Extracted.Render\n'


# the translation of the source as of the last successful check (fallback when extract() raises Miss)
PINNED_JSON = r'''{"label": {"origin": "MermaidNetwork.__label", "params": ["name"], "body": [["ret", ["prim", "replace", ["listCons", ["prim", "replace", ["listCons", ["prim", "replace", ["listCons", ["var", "name"], ["listCons", ["prim", "lit:\"", ["listNil"]], ["listCons", ["prim", "lit:", ["listNil"]], ["listNil"]]]]], ["listCons", ["prim", "lit:{", ["listNil"]], ["listCons", ["prim", "lit:#123;", ["listNil"]], ["listNil"]]]]], ["listCons", ["prim", "lit:}", ["listNil"]], ["listCons", ["prim", "lit:#125;", ["listNil"]], ["listNil"]]]]]]]}, "network_src": {"origin": "MermaidNetwork.__src", "params": ["self"], "body": [["assign", "res", ["prim", "lit:flowchart LR\n", ["listNil"]]], ["forIn", "t", ["prim", "tasks", ["listCons", ["prim", "self.wbs", ["listCons", ["var", "self"], ["listNil"]]], ["listNil"]]], [["assign", "t_name", ["callFn", 0, ["listCons", ["prim", "name", ["listCons", ["var", "t"], ["listNil"]]], ["listNil"]]]], ["ifElse", ["cmp", "eq", ["len", ["prim", "predecessors", ["listCons", ["var", "t"], ["listNil"]]]], ["num", "0"]], [["assign", "res", ["prim", "concat", ["listCons", ["var", "res"], ["listCons", ["prim", "concat", ["listCons", ["prim", "concat", ["listCons", ["prim", "concat", ["listCons", ["prim", "concat", ["listCons", ["prim", "lit:  0((Start)) --> ", ["listNil"]], ["listCons", ["prim", "str", ["listCons", ["prim", "id", ["listCons", ["var", "t"], ["listNil"]]], ["listNil"]]], ["listNil"]]]], ["listCons", ["prim", "lit:{{", ["listNil"]], ["listNil"]]]], ["listCons", ["prim", "str", ["listCons", ["var", "t_name"], ["listNil"]]], ["listNil"]]]], ["listCons", ["prim", "lit:}}\n", ["listNil"]], ["listNil"]]]], ["listNil"]]]]]], [["forIn", "p", ["prim", "predecessors", ["listCons", ["var", "t"], ["listNil"]]], [["assign", "p_name", ["callFn", 0, ["listCons", ["prim", "name", ["listCons", ["var", "p"], ["listNil"]]], ["listNil"]]]], ["assign", "res", ["prim", "concat", ["listCons", ["var", "res"], ["listCons", ["prim", "concat", ["listCons", ["prim", "concat", ["listCons", ["prim", "concat", ["listCons", ["prim", "concat", ["listCons", ["prim", "concat", ["listCons", ["prim", "concat", ["listCons", ["prim", "concat", ["listCons", ["prim", "concat", ["listCons", ["prim", "lit:  ", ["listNil"]], ["listCons", ["prim", "str", ["listCons", ["prim", "id", ["listCons", ["var", "p"], ["listNil"]]], ["listNil"]]], ["listNil"]]]], ["listCons", ["prim", "lit:{{", ["listNil"]], ["listNil"]]]], ["listCons", ["prim", "str", ["listCons", ["var", "p_name"], ["listNil"]]], ["listNil"]]]], ["listCons", ["prim", "lit:}} --> ", ["listNil"]], ["listNil"]]]], ["listCons", ["prim", "str", ["listCons", ["prim", "id", ["listCons", ["var", "t"], ["listNil"]]], ["listNil"]]], ["listNil"]]]], ["listCons", ["prim", "lit:{{", ["listNil"]], ["listNil"]]]], ["listCons", ["prim", "str", ["listCons", ["var", "t_name"], ["listNil"]]], ["listNil"]]]], ["listCons", ["prim", "lit:}}\n", ["listNil"]], ["listNil"]]]], ["listNil"]]]]]]]]]]], ["forIn", "t", ["prim", "tasks", ["listCons", ["prim", "self.wbs", ["listCons", ["var", "self"], ["listNil"]]], ["listNil"]]], [["ifElse", ["isIn", ["prim", "lit:network_bar_style", ["listNil"]], ["prim", "__dict__", ["listCons", ["var", "t"], ["listNil"]]]], [["assign", "res", ["prim", "concat", ["listCons", ["var", "res"], ["listCons", ["prim", "concat", ["listCons", ["prim", "concat", ["listCons", ["prim", "concat", ["listCons", ["prim", "concat", ["listCons", ["prim", "lit:style ", ["listNil"]], ["listCons", ["prim", "str", ["listCons", ["prim", "id", ["listCons", ["var", "t"], ["listNil"]]], ["listNil"]]], ["listNil"]]]], ["listCons", ["prim", "lit: ", ["listNil"]], ["listNil"]]]], ["listCons", ["prim", "str", ["listCons", ["prim", "dict_to_style", ["listCons", ["prim", "__getattribute__", ["listCons", ["var", "t"], ["listCons", ["prim", "lit:network_bar_style", ["listNil"]], ["listNil"]]]], ["listNil"]]], ["listNil"]]], ["listNil"]]]], ["listCons", ["prim", "lit:\n", ["listNil"]], ["listNil"]]]], ["listNil"]]]]]], []]]], ["ret", ["var", "res"]]]}, "task_state": {"origin": "MermaidGantt.__mermaid_task_state", "params": ["task"], "body": [["assign", "now", ["prim", "datetime.now", ["listNil"]]], ["ifElse", ["prim", "milestone", ["listCons", ["var", "task"], ["listNil"]]], [["ret", ["prim", "lit:milestone,", ["listNil"]]]], []], ["ifElse", ["cmp", "le", ["prim", "end", ["listCons", ["var", "task"], ["listNil"]]], ["var", "now"]], [["ret", ["prim", "lit:done,", ["listNil"]]]], []], ["ifElse", ["cmp", "lt", ["prim", "start", ["listCons", ["var", "task"], ["listNil"]]], ["var", "now"]], [["ret", ["prim", "lit:active,", ["listNil"]]]], []], ["ret", ["prim", "lit:", ["listNil"]]]]}, "mermaid_task": {"origin": "MermaidGantt.__mermaid_task", "params": ["self", "t"], "body": [["ret", ["prim", "concat", ["listCons", ["prim", "concat", ["listCons", ["prim", "concat", ["listCons", ["prim", "concat", ["listCons", ["prim", "concat", ["listCons", ["prim", "concat", ["listCons", ["prim", "concat", ["listCons", ["prim", "concat", ["listCons", ["prim", "concat", ["listCons", ["prim", "concat", ["listCons", ["prim", "lit:    ", ["listNil"]], ["listCons", ["prim", "str", ["listCons", ["prim", "replace", ["listCons", ["prim", "name", ["listCons", ["var", "t"], ["listNil"]]], ["listCons", ["prim", "lit::", ["listNil"]], ["listCons", ["prim", "lit:", ["listNil"]], ["listNil"]]]]], ["listNil"]]], ["listNil"]]]], ["listCons", ["prim", "lit:: ", ["listNil"]], ["listNil"]]]], ["listCons", ["prim", "str", ["listCons", ["callFn", 2, ["listCons", ["var", "t"], ["listNil"]]], ["listNil"]]], ["listNil"]]]], ["listCons", ["prim", "lit: ", ["listNil"]], ["listNil"]]]], ["listCons", ["prim", "str", ["listCons", ["prim", "concat", ["listCons", ["prim", "lit:id_", ["listNil"]], ["listCons", ["prim", "str", ["listCons", ["prim", "id", ["listCons", ["var", "t"], ["listNil"]]], ["listNil"]]], ["listNil"]]]], ["listNil"]]], ["listNil"]]]], ["listCons", ["prim", "lit:, ", ["listNil"]], ["listNil"]]]], ["listCons", ["prim", "str", ["listCons", ["prim", "strftime:%d.%m.%Y %H:%M", ["listCons", ["prim", "start", ["listCons", ["var", "t"], ["listNil"]]], ["listNil"]]], ["listNil"]]], ["listNil"]]]], ["listCons", ["prim", "lit:, ", ["listNil"]], ["listNil"]]]], ["listCons", ["prim", "str", ["listCons", ["prim", "strftime:%d.%m.%Y %H:%M", ["listCons", ["prim", "end", ["listCons", ["var", "t"], ["listNil"]]], ["listNil"]]], ["listNil"]]], ["listNil"]]]], ["listCons", ["prim", "lit:\n", ["listNil"]], ["listNil"]]]]]]}, "gantt_src": {"origin": "MermaidGantt.__src", "params": ["self"], "body": [["assign", "res", ["prim", "lit:gantt\n", ["listNil"]]], ["assign", "res", ["prim", "concat", ["listCons", ["var", "res"], ["listCons", ["prim", "lit:  dateFormat DD.MM.YYYY HH:mm\n", ["listNil"]], ["listNil"]]]]], ["ifElse", ["isNotNone", ["prim", "self.title", ["listCons", ["var", "self"], ["listNil"]]]], [["assign", "res", ["prim", "concat", ["listCons", ["var", "res"], ["listCons", ["prim", "concat", ["listCons", ["prim", "concat", ["listCons", ["prim", "lit:  title ", ["listNil"]], ["listCons", ["prim", "str", ["listCons", ["prim", "self.title", ["listCons", ["var", "self"], ["listNil"]]], ["listNil"]]], ["listNil"]]]], ["listCons", ["prim", "lit:\n", ["listNil"]], ["listNil"]]]], ["listNil"]]]]]], []], ["ifElse", ["prim", "truth", ["listCons", ["prim", "self.weekends", ["listCons", ["var", "self"], ["listNil"]]], ["listNil"]]], [["assign", "res", ["prim", "concat", ["listCons", ["var", "res"], ["listCons", ["prim", "lit:  excludes weekends\n", ["listNil"]], ["listNil"]]]]]], []], ["ifElse", ["prim", "truth", ["listCons", ["prim", "self.tick_interval", ["listCons", ["var", "self"], ["listNil"]]], ["listNil"]]], [["assign", "res", ["prim", "concat", ["listCons", ["var", "res"], ["listCons", ["prim", "concat", ["listCons", ["prim", "concat", ["listCons", ["prim", "lit:  tickInterval ", ["listNil"]], ["listCons", ["prim", "str", ["listCons", ["prim", "self.tick_interval", ["listCons", ["var", "self"], ["listNil"]]], ["listNil"]]], ["listNil"]]]], ["listCons", ["prim", "lit:\n", ["listNil"]], ["listNil"]]]], ["listNil"]]]]]], []], ["assign", "tasks", ["prim", "tasks", ["listCons", ["prim", "self.wbs", ["listCons", ["var", "self"], ["listNil"]]], ["listNil"]]]], ["assign", "sections", ["setOf", ["listComp", ["ite", ["isIn", ["prim", "lit:gantt_section", ["listNil"]], ["prim", "__dict__", ["listCons", ["var", "task"], ["listNil"]]]], ["prim", "__getattribute__", ["listCons", ["var", "task"], ["listCons", ["prim", "lit:gantt_section", ["listNil"]], ["listNil"]]]], ["prim", "lit:-", ["listNil"]]], "task", ["var", "tasks"], ["bool", true]]]], ["ifElse", ["cmp", "eq", ["len", ["var", "sections"]], ["num", "1"]], [["assign", "sections", ["none"]]], []], ["ifElse", ["and", ["isNotNone", ["var", "sections"]], ["cmp", "ne", ["len", ["var", "sections"]], ["num", "0"]]], [["assign", "sections_map", ["dictNil"]], ["forIn", "task", ["var", "tasks"], [["assign", "task_section", ["ite", ["isIn", ["prim", "lit:gantt_section", ["listNil"]], ["prim", "__dict__", ["listCons", ["var", "task"], ["listNil"]]]], ["prim", "__getattribute__", ["listCons", ["var", "task"], ["listCons", ["prim", "lit:gantt_section", ["listNil"]], ["listNil"]]]], ["prim", "lit:-", ["listNil"]]]], ["ifElse", ["not", ["dictHas", ["var", "task_section"], ["var", "sections_map"]]], [["assign", "sections_map", ["dictSet", ["var", "sections_map"], ["var", "task_section"], ["newBox", ["listNil"]]]]], []], ["boxAppend", ["dictIndex", ["var", "sections_map"], ["var", "task_section"]], ["var", "task"]]]], ["forIn", "k", ["var", "sections_map"], [["assign", "v", ["items", ["dictIndex", ["var", "sections_map"], ["var", "k"]]]], ["assign", "res", ["prim", "concat", ["listCons", ["var", "res"], ["listCons", ["prim", "concat", ["listCons", ["prim", "concat", ["listCons", ["prim", "lit:  section ", ["listNil"]], ["listCons", ["prim", "str", ["listCons", ["var", "k"], ["listNil"]]], ["listNil"]]]], ["listCons", ["prim", "lit:\n", ["listNil"]], ["listNil"]]]], ["listNil"]]]]], ["forIn", "task", ["var", "v"], [["assign", "res", ["prim", "concat", ["listCons", ["var", "res"], ["listCons", ["callFn", 3, ["listCons", ["var", "self"], ["listCons", ["var", "task"], ["listNil"]]]], ["listNil"]]]]]]]]]], [["forIn", "task", ["var", "tasks"], [["assign", "res", ["prim", "concat", ["listCons", ["var", "res"], ["listCons", ["callFn", 3, ["listCons", ["var", "self"], ["listCons", ["var", "task"], ["listNil"]]]], ["listNil"]]]]]]]]], ["ret", ["var", "res"]]]}, "funs": ["label", "network_src", "task_state", "mermaid_task", "gantt_src"]}'''


def pinned():
    import json
    return json.loads(PINNED_JSON)


if __name__ == '__main__':
    # python3 extract_render.py <network.py> <gantt.py> [<out.lean> | --pinned]: translate (no pinned fallback)
    import sys
    d = extract(open(sys.argv[1]).read(), open(sys.argv[2]).read())
    if len(sys.argv) > 3 and sys.argv[3] == '--pinned':
        import json
        sys.stdout.write(json.dumps(d))
        sys.exit(0)
    text = to_lean(d)
    if len(sys.argv) > 3:
        with open(sys.argv[3], 'w') as f:
            f.write(text)
    else:
        sys.stdout.write(text)
