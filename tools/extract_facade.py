"""extract_facade: translate the LIST FACADES of task.py and the operators of `Task` -

  _ChildrenList.remove / insert / move / reorder / sort          keys ChildrenList_remove, ..._insert, ..._move, ...
  _PredecessorsList.append / remove, _SuccessorsList.append / remove   keys PredecessorsList_append, ...
  _ImmutableTaskList.__add__ / __lshift__ / __rshift__            keys ImmutableTaskList_add / _lshift / _rshift
  _ImmutableTaskList.__setattr__ specialised to key = 'parent'    key  ImmutableTaskList_set_parent
  Task.__floordiv__ / __lshift__ / __rshift__                     keys Task_floordiv / Task_lshift / Task_rshift
  Task.__set_children                                             key  Task_set_children

into further functions of the PROGRAM task.py (tools/extract_task.py: the 25 functions of `FUNS`, which are the callees;
this module imports that translator, does not change it, and numbers the new functions from 25 on).  Terms, conventions
and the meaning of Miss are those of extract_task; the new terms are the "facade constructs" of
lean/PjVerif/Model/PyLite.lean: ["listInsert", l, i, e] ["listRemove", l, e] ["indexOf", l, e]
["nextComp", elt, x, it, cond] ["sortedBy", key, x, l, rev] ["typeIsS", e, T] (and ["fnRef", k] for a bound method).

Facade objects.  `_ChildrenList(parent, _list, _setter)`, `_PredecessorsList(parent, _list)`, `_SuccessorsList(parent,
_list)` are only constructed by the getters `Task.children / predecessors / successors` as
`C(self, self.__f, [self.__set_children])` (checked), `_list` is only assigned in `_ImmutableTaskList.__init__`,
`__parent` / `__setter` only in the `__init__` of the facade (checked).  A facade TAKEN FROM THE CURRENT STATE is
therefore the pair (owner, field f): `self._list` IS the list object currently held by `owner.__f`.  A method of a
facade class is translated as a function whose first parameter is the OWNER (`_facade_parent`):
   self.__parent                ["var", "_facade_parent"]
   self._list                   ["attr", owner, f]     (the live list: read at the time of use)
   for t in self / (t for t in self)        iteration over `self._list` (`_ImmutableTaskList.__iter__`, checked)
   self._list.remove(x)         ["attrRemove", owner, f, x]                  (in place)
   self._list.insert(i, x)      ["setAttr", owner, f, ["listInsert", ["attr", owner, f], i, x]]
   self._list[:] = e            ["setAttr", owner, f, e]       (the content is replaced, the object stays)
   self._list.index(x) / .copy()            ["indexOf", …] / ["listOf", …]
   self.__setter(self._list)    the call of `Task.__set_children(owner, owner.__f)` (`self.__children = lst`:
                                translated like any other function; with the list the attribute already holds it
                                changes nothing - in Python because it is the same object, here because it is the same
                                value); `self.__setter is None` is ["isNone", ["fnRef", k]] (a bound method)
   self.__parent.<property> = e the call of the setter (the target is a variable, so the order of evaluation of target
                                and value is irrelevant)
A facade that was taken EARLIER and is used after `owner.__f` was rebound to another list object (only the
`predecessors` / `successors` setters rebind) is a different object graph and is NOT what these functions model.
A method of `_ImmutableTaskList` is translated as a function whose first parameter is the list VALUE `_list`
(`self._list` = ["var", "_list"], `for t in self` iterates it): faithful for a list that no task attribute holds while
the method runs (a query result, `all_children`, …) - for the read-only `__add__` for every facade.

Operators.  `o.<facade property> += e` is Python's `o.<property> = o.<property>.__add__(e)` (no facade class defines
`__iadd__`, `__add__` is `_ImmutableTaskList.__add__`; checked): the call of the setter with the result of
ImmutableTaskList_add(o.__f, e).  A function may return its parameter `other` (the caller gets the value it passed).

Local lists.  Besides extract_task's rules: `x = self._list.copy()` makes `x` fresh; `x.insert(i, e)` / `x.remove(e)` on a
fresh local are `x = listInsert x i e` / `x = listRemove x e`.
Library.  `x.__getattribute__(k)`, `str(v)`, `'<sep>'.join(l)` are ["prim", "__getattribute__", [x, k]],
["prim", "str", [v]], ["prim", "join:<sep>", l] (the Lean side quantifies over their meaning);
`sorted(self._list, key=lambda x: e, reverse=r)` is ["sortedBy", e, x, l, r], `next(e for x in it if c)` is ["nextComp", …].
Specialisation.  `_ImmutableTaskList.__setattr__(self, key, value)` is translated for the constant key 'parent' (the
parameter disappears): a test `key.startswith('<c>')` is decided at translation time and only the branch taken is
translated; `t.__setattr__(key, value)` is the call of the `parent` setter (`Task` defines no `__setattr__`: checked).
Default values of parameters (`before=None`, `after=None`, `reverse=False`) are not modelled: the entry points take all
arguments."""
import ast

import extract_task as T
from extract_calendar import Miss, miss, is_none, strip_docstring, lean_str

OWNER = T.FACADE_OWNER
LISTP = '_list'
NEW_FUNS = ['Task_set_children', 'ImmutableTaskList_add',
            'ChildrenList_remove', 'ChildrenList_insert',
            'PredecessorsList_append', 'PredecessorsList_remove', 'SuccessorsList_append', 'SuccessorsList_remove',
            'Task_floordiv', 'Task_lshift', 'Task_rshift',
            'ChildrenList_move', 'ChildrenList_reorder', 'ChildrenList_sort',
            'ImmutableTaskList_lshift', 'ImmutableTaskList_rshift', 'ImmutableTaskList_set_parent']
FUNS_F = list(T.FUNS) + NEW_FUNS
FACADE_METHODS = {'_ChildrenList': ['remove', 'insert', 'move', 'reorder', 'sort'],
                  '_PredecessorsList': ['append', 'remove'], '_SuccessorsList': ['append', 'remove']}
IMMUTABLE_METHODS = {'__add__': 'ImmutableTaskList_add', '__lshift__': 'ImmutableTaskList_lshift',
                     '__rshift__': 'ImmutableTaskList_rshift'}
TASK_OPERATORS = {'__floordiv__': 'Task_floordiv', '__lshift__': 'Task_lshift', '__rshift__': 'Task_rshift'}
SET_CHILDREN = '__set_children'
EXTRA_BUILTINS = {'sorted', 'next', 'str'}
SETATTR_KEY = 'parent'


class FnF(T.Fn):
    """one function of the extended table; default values of parameters are accepted (and not modelled)"""

    def __init__(self, key, node, origin, in_task, facade=None, immutable=False, consts=None, returns_param=False):
        self.key = key
        self.node = node
        self.origin = origin
        self.in_task = in_task
        self.generator = False
        self.facade = None              # (extract_task's flag for `_ChildrenList.append`: not used here)
        self.fcls = facade              # the facade class: `self` stands for the pair (owner, field)
        self.immutable = immutable      # a method of _ImmutableTaskList: `self` stands for the list value
        self.consts = consts or {}      # parameters specialised to a string constant
        self.returns_param = returns_param
        self.nested = {}
        a = node.args
        if a.vararg or a.kwarg or a.kwonlyargs or a.posonlyargs or a.kw_defaults:
            raise Miss(f'{origin}: signature')
        for dflt in a.defaults:
            if not (isinstance(dflt, ast.Constant) and (dflt.value is None or dflt.value is False)):
                raise Miss(f'{origin}: default value')
        self.all_params = [x.arg for x in a.args]
        if len(set(self.all_params)) != len(self.all_params) or not self.all_params:
            raise Miss(f'{origin}: parameters')
        self.wbs_params = set()
        for x in a.args:
            if T.ann_is(x.annotation, T.WBS):
                raise Miss(f'{origin}: a WBS parameter')
        self.dropped = set()
        self.params = list(self.all_params)
        self.body = None
        self.writes = set()
        self.calls = set()
        self.constraints = []


class TrF(T.Tr):
    def __init__(self, info, fns, fn, field):
        self.field = field              # the list field a facade wraps
        super().__init__(info, fns, fn)
        self.known -= set(fn.consts)
        if fn.fcls or fn.immutable:
            self.known.discard(fn.all_params[0])        # `self` is not a value

    # ---- bookkeeping
    def call(self, key, args):
        self.note_call(key)
        return ['callFn', FUNS_F.index(key), self.arg_list(args)]

    def classify_locals(self):
        fn = self.fn.node
        assigns = {}
        for n in ast.walk(fn):
            if isinstance(n, (ast.FunctionDef, ast.AsyncFunctionDef, ast.ClassDef)) and n is not fn:
                raise Miss(f'{self.fn.origin}: nested scope')
            if isinstance(n, ast.Assign):
                for t in n.targets:
                    if isinstance(t, ast.Name):
                        assigns.setdefault(t.id, []).append(n.value)
            elif isinstance(n, ast.AnnAssign) and isinstance(n.target, ast.Name) and n.value is not None:
                assigns.setdefault(n.target.id, []).append(n.value)
            elif isinstance(n, (ast.Global, ast.Nonlocal, ast.Try, ast.With, ast.While, ast.Delete,
                                ast.NamedExpr, ast.Await, ast.AsyncFor, ast.AsyncWith, ast.Starred, ast.Yield,
                                ast.YieldFrom, ast.SetComp, ast.DictComp)):
                raise Miss(f'{self.fn.origin}: {type(n).__name__}')
        for x, vals in assigns.items():
            if x in self.fn.all_params:
                continue
            if all(isinstance(v, (ast.List, ast.ListComp)) or self.is_list_copy(v) for v in vals):
                self.fresh.add(x)

    # ---- the facade itself
    def is_self(self, n):
        return isinstance(n, ast.Name) and n.id == self.fn.all_params[0]

    def is_self_attr(self, n, attr):
        return isinstance(n, ast.Attribute) and n.attr == attr and self.is_self(n.value)

    def is_facade_owner(self, n):
        return bool(self.fn.fcls) and self.is_self_attr(n, '__parent')

    def is_raw_list(self, n):
        """`self._list` in a method of a facade class / of _ImmutableTaskList"""
        return (self.fn.fcls or self.fn.immutable) and self.is_self_attr(n, '_list') \
            and isinstance(n.ctx, ast.Load)

    def raw_list(self):
        if self.fn.fcls:
            return ['attr', ['var', OWNER], self.field]
        return ['var', LISTP]

    def is_list_copy(self, n):
        return isinstance(n, ast.Call) and not n.args and not n.keywords and isinstance(n.func, ast.Attribute) \
            and n.func.attr == 'copy' and (self.fn.fcls or self.fn.immutable) and self.is_self_attr(n.func.value, '_list')

    def facade_attr(self, n):
        if self.is_raw_list(n) and self.fn.fcls:
            return self.field
        if (self.fn.fcls or self.fn.immutable) and isinstance(n, ast.Attribute) and self.is_self(n.value):
            return None
        return super().facade_attr(n)

    def list_field(self, n):
        if self.is_raw_list(n):
            return self.field if self.fn.fcls else None
        if (self.fn.fcls or self.fn.immutable) and isinstance(n, ast.Attribute) and self.is_self(n.value):
            return None
        return super().list_field(n)

    def receiver(self, n):
        if self.is_facade_owner(n):
            return ['var', OWNER]
        if self.is_self(n) and (self.fn.fcls or self.fn.immutable):
            miss(n, 'the facade itself as a receiver')
        return super().receiver(n)

    def attribute(self, n):
        if self.fn.fcls or self.fn.immutable:
            if self.is_facade_owner(n):
                return ['var', OWNER]
            if self.is_raw_list(n):
                return self.raw_list()
            if self.is_self(n.value):
                miss(n, 'attribute of a facade')
            # an attribute of another object (`self.__parent.predecessors`, `t.id`): as in a function of the module
        return super().attribute(n)

    def setter_fn(self):
        """`self.__setter` of a _ChildrenList: the bound method `owner.__set_children`"""
        if self.fn.fcls != '_ChildrenList':
            return None
        return 'Task_set_children'

    # ---- expressions
    def expr(self, n, ok_facade=False, ok_generator=False):
        if isinstance(n, ast.Name) and isinstance(n.ctx, ast.Load):
            if n.id in self.fn.consts:
                miss(n, 'a specialised parameter as a value')
            if (self.fn.fcls or self.fn.immutable) and self.is_self(n):
                miss(n, 'the facade itself as a value')
        if isinstance(n, ast.Compare) and len(n.ops) == 1:
            l, op, r = n.left, n.ops[0], n.comparators[0]
            if isinstance(op, ast.Is) and self.is_builtin_call(l, 'type', (1,)) and isinstance(r, ast.Name) \
                    and r.id == 'str' and 'str' not in self.known and 'type' not in self.known:
                return ['typeIsS', self.expr(l.args[0]), 'str']
            if isinstance(op, (ast.Is, ast.IsNot)) and is_none(r) and self.is_self_attr(l, '__setter'):
                k = self.setter_fn()
                if k is None:
                    miss(n, '__setter')
                return ['isNone' if isinstance(op, ast.Is) else 'isNotNone', ['fnRef', FUNS_F.index(k)]]
        if isinstance(n, ast.Call):
            e = self.special_call(n)
            if e is not None:
                return e
        return super().expr(n, ok_facade, ok_generator)

    def pure_list(self, n):
        """an expression denoting a list that is only read here: `self._list` or a plain variable"""
        if self.is_raw_list(n):
            return self.raw_list()
        if self.plain_var(n):
            return self.expr(n)
        miss(n, 'list expression')

    def special_call(self, n):
        f = n.func
        if isinstance(f, ast.Name) and f.id not in self.known:
            if f.id == 'sorted':
                return self.sorted_call(n)
            if f.id == 'next' and len(n.args) == 1 and not n.keywords and isinstance(n.args[0], ast.GeneratorExp):
                return self.comp(n.args[0], 'nextComp')
            if f.id == 'str' and len(n.args) == 1 and not n.keywords:
                return ['prim', 'str', self.arg_list([self.expr(n.args[0])])]
            return None
        if isinstance(f, ast.Attribute) and not n.keywords and not any(isinstance(x, ast.Starred) for x in n.args):
            o = f.value
            if f.attr == '__getattribute__' and len(n.args) == 1 and self.plain_var(o):
                # `Task` defines neither `__getattribute__` nor `__getattr__` (checked): ordinary attribute lookup,
                # a library primitive whose meaning the Lean side quantifies over
                return ['prim', '__getattribute__', self.arg_list([self.expr(o), self.expr(n.args[0])])]
            if f.attr == 'join' and len(n.args) == 1 and isinstance(o, ast.Constant) and isinstance(o.value, str):
                return ['prim', 'join:' + o.value, self.expr(n.args[0])]
            if self.is_raw_list(o):
                if f.attr == 'index' and len(n.args) == 1:
                    return ['indexOf', self.raw_list(), self.expr(n.args[0])]
                if f.attr == 'copy' and not n.args:
                    return ['listOf', self.raw_list()]
                if f.attr == '__add__' and len(n.args) == 1:
                    # `list.__add__(l)` = `self._list + l` (a new list)
                    return ['bin', 'add', self.raw_list(), self.expr(n.args[0])]
                miss(n, 'method of the raw list')
        return None

    def scoped_var(self, x, n):
        if x in self.known or x in self.scoped or x in T.BUILTINS or x in EXTRA_BUILTINS or x in T.MODULE_FUNS \
                or x == T.EMPTY_ID or x in self.fn.all_params or x in (T.GEN_ACC, OWNER, LISTP):
            miss(n, 'bound variable')

    def comp(self, n, kind):
        """a generator expression with one `for` (for `next`)"""
        if len(n.generators) != 1:
            miss(n, 'generator expression')
        g = n.generators[0]
        if g.is_async or not isinstance(g.target, ast.Name):
            miss(n, 'generator expression')
        x = g.target.id
        self.scoped_var(x, n)
        saved = set(self.known)
        self.known = self.known | {x}
        self.scoped.append(x)
        self.collect()
        try:
            conds = [self.cond(c) for c in g.ifs] or [['bool', True]]
            c = conds[-1]
            for v in reversed(conds[:-1]):
                c = ['and', v, c]
            elt = self.expr(n.elt)
        finally:
            eff = self.collected()
            self.scoped.pop()
            self.known = saved
        if eff[0] or eff[1]:
            miss(n, 'a generator expression that calls / writes')
        it = self.iterable(g.iter, eff, 'generator expression')
        return [kind, elt, x, it, c]

    def sorted_call(self, n):
        kw = {k.arg: k.value for k in n.keywords}
        if len(n.args) != 1 or set(kw) != {'key', 'reverse'} or len(n.keywords) != 2:
            miss(n, 'sorted')
        lam = kw['key']
        a = lam.args if isinstance(lam, ast.Lambda) else None
        if a is None or len(a.args) != 1 or a.vararg or a.kwarg or a.kwonlyargs or a.posonlyargs or a.defaults \
                or a.kw_defaults:
            miss(n, 'sorted: key')
        x = a.args[0].arg
        self.scoped_var(x, n)
        lst = self.pure_list(n.args[0])
        rev = self.expr(kw['reverse'])
        saved = set(self.known)
        self.known = self.known | {x}
        self.scoped.append(x)
        self.collect()
        try:
            key = self.expr(lam.body)
        finally:
            eff = self.collected()
            self.scoped.pop()
            self.known = saved
        if eff[0] or eff[1]:
            miss(n, 'sorted: a key function that calls / writes')
        return ['sortedBy', key, x, lst, rev]

    def list_comp(self, n):
        for g in n.generators:
            if isinstance(g.target, ast.Name) and g.target.id in (OWNER, LISTP):
                miss(n, 'comprehension variable')
        return super().list_comp(n)

    def iterable(self, n, body_effects, what):
        if (self.fn.fcls or self.fn.immutable) and self.is_self(n):
            # `for t in self`: `_ImmutableTaskList.__iter__` = `iter(self._list)` (checked by extract_task)
            if self.fn.fcls:
                self.fn.constraints.append((what, self.field, body_effects[0], body_effects[1]))
            return self.raw_list()
        if self.is_raw_list(n):
            if self.fn.fcls:
                self.fn.constraints.append((what, self.field, body_effects[0], body_effects[1]))
            return self.raw_list()
        return super().iterable(n, body_effects, what)

    # ---- statements
    def new_local(self, x, node):
        if x in self.fn.consts or x == self.fn.all_params[0] or x in self.scoped or x in T.BUILTINS \
                or x in EXTRA_BUILTINS or x in T.MODULE_FUNS or x == T.EMPTY_ID or x in (T.GEN_ACC, OWNER, LISTP) \
                or x in self.loop_vars:
            miss(node, f'assignment to {x}')

    def const_test(self, n):
        """a test on a specialised parameter, decided at translation time: True / False, else None"""
        if isinstance(n, ast.Call) and isinstance(n.func, ast.Attribute) and n.func.attr == 'startswith' \
                and isinstance(n.func.value, ast.Name) and n.func.value.id in self.fn.consts and len(n.args) == 1 \
                and not n.keywords and isinstance(n.args[0], ast.Constant) and isinstance(n.args[0].value, str):
            return self.fn.consts[n.func.value.id].startswith(n.args[0].value)
        return None

    def prop_facade(self, t):
        """`o.<facade property>` with `o` a plain variable: (o, property name, field, class), else None"""
        if isinstance(t, ast.Attribute) and not t.attr.startswith('_') and self.plain_var(t.value):
            p = self.info.props.get(t.attr)
            if p is not None and p[0] == 'facade' and t.attr in self.info.setters and t.attr in T.SETTERS:
                return t.value, t.attr, p[1], p[2]
        return None

    def stmt(self, s):
        if isinstance(s, ast.If):
            b = self.const_test(s.test)
            if b is not None:
                # the branch that is not taken may contain anything: it is dead code for this specialisation
                return self.block(s.body if b else s.orelse)
        if isinstance(s, ast.Assign) and len(s.targets) == 1:
            t, v = s.targets[0], s.value
            # self._list[:] = e
            if isinstance(t, ast.Subscript) and isinstance(t.ctx, ast.Store) and self.fn.fcls \
                    and self.is_raw_list(t.value) and isinstance(t.slice, ast.Slice) and t.slice.lower is None \
                    and t.slice.upper is None and t.slice.step is None:
                e = self.expr(v)
                self.note_write(self.field)
                return [['setAttr', ['var', OWNER], self.field, e]]
            # self.__parent.<property> = e / o.<property> = e with an arbitrary value
            if isinstance(t, ast.Attribute) and isinstance(t.ctx, ast.Store) and t.attr in self.info.setters \
                    and t.attr in T.SETTERS and (self.is_facade_owner(t.value) or self.plain_var(t.value)):
                o = ['var', OWNER] if self.is_facade_owner(t.value) else self.expr(t.value)
                return [['expr', self.call(f'Task_{t.attr}_set', [o, self.expr(v)])]]
            if isinstance(t, ast.Attribute) and isinstance(t.ctx, ast.Store) and self.fn.key == 'Task_set_children':
                # `self.__children = lst`: the one place where a list attribute is assigned a list it did not build; the
                # facades call it with the list the attribute already holds
                f = T.field_of(t.attr)
                if not (self.is_self(t.value) and f in T.LIST_FIELDS and self.plain_var(v)
                        and v.id in self.fn.all_params):
                    miss(s, '__set_children')
                self.note_write(f)
                return [['setAttr', self.expr(t.value), f, self.expr(v)]]
        if isinstance(s, ast.AugAssign) and isinstance(s.op, ast.Add) and isinstance(s.target, ast.Attribute):
            pf = self.prop_facade(ast.Attribute(value=s.target.value, attr=s.target.attr, ctx=ast.Load()))
            if pf is None:
                miss(s, 'augmented assignment to an attribute')
            o, name, field, _cls = pf
            # o.p += e  =  o.p = o.p.__add__(e)   (`__iadd__` is not defined, `__add__` is _ImmutableTaskList.__add__)
            oe = self.expr(o)
            added = self.call('ImmutableTaskList_add', [['attr', oe, field], self.expr(s.value)])
            return [['expr', self.call(f'Task_{name}_set', [oe, added])]]
        if isinstance(s, ast.Return) and s.value is not None and self.fn.returns_param \
                and isinstance(s.value, ast.Name) and s.value.id in self.fn.all_params[1:] \
                and s.value.id not in self.assigned_params:
            return [['ret', ['var', s.value.id]]]
        if isinstance(s, ast.Expr) and isinstance(s.value, ast.Call):
            r = self.special_stmt(s.value, s)
            if r is not None:
                return r
        return super().stmt(s)

    def special_stmt(self, v, s):
        f = v.func
        if v.keywords or any(isinstance(x, ast.Starred) for x in v.args):
            return None
        # self.__setter(self._list)
        if self.is_self_attr(f, '__setter'):
            k = self.setter_fn()
            if k is None or len(v.args) != 1 or not self.is_raw_list(v.args[0]):
                miss(s, '__setter')
            return [['expr', self.call(k, [['var', OWNER], self.raw_list()])]]
        if isinstance(f, ast.Attribute):
            o = f.value
            # the live list of the facade
            if self.fn.fcls and self.is_raw_list(o):
                if f.attr == 'remove' and len(v.args) == 1 and self.plain_var(v.args[0]):
                    self.note_write(self.field)
                    return [['attrRemove', ['var', OWNER], self.field, self.expr(v.args[0])]]
                if f.attr == 'insert' and len(v.args) == 2 and self.plain_var(v.args[1]):
                    e = ['listInsert', self.raw_list(), self.expr(v.args[0]), self.expr(v.args[1])]
                    self.note_write(self.field)
                    return [['setAttr', ['var', OWNER], self.field, e]]
                miss(s, 'method of the raw list')
            # a fresh local list
            if isinstance(o, ast.Name) and f.attr in ('insert', 'remove'):
                self.mutable_local(o.id, s)
                if f.attr == 'insert' and len(v.args) == 2:
                    return [['assign', o.id, ['listInsert', ['var', o.id], self.expr(v.args[0]), self.expr(v.args[1])]]]
                if f.attr == 'remove' and len(v.args) == 1:
                    return [['assign', o.id, ['listRemove', ['var', o.id], self.expr(v.args[0])]]]
                miss(s, 'method of a local')
            # t.__setattr__(<specialised key>, value): `Task` defines no `__setattr__` (checked), the key names a property
            # with a setter
            if f.attr == '__setattr__' and len(v.args) == 2 and isinstance(v.args[0], ast.Name) \
                    and v.args[0].id in self.fn.consts and self.plain_var(o) and self.plain_var(v.args[1]):
                name = self.fn.consts[v.args[0].id]
                if name not in self.info.setters or name not in T.SETTERS:
                    miss(s, '__setattr__')
                return [['expr', self.call(f'Task_{name}_set', [self.expr(o), self.expr(v.args[1])])]]
        return None


def check_module_f(tree, info):
    """what the treatment of the facades relies on, beyond extract_task.check_facades"""
    for n in ast.walk(tree):
        if isinstance(n, (ast.FunctionDef, ast.ClassDef, ast.AsyncFunctionDef)) and n.name in EXTRA_BUILTINS:
            raise Miss(f'{n.name} is redefined')
        if isinstance(n, ast.Name) and isinstance(n.ctx, (ast.Store, ast.Del)) and n.id in EXTRA_BUILTINS:
            raise Miss(f'{n.id} is redefined')
        if isinstance(n, ast.arg) and n.arg in EXTRA_BUILTINS:
            raise Miss(f'{n.arg} is a parameter')
        if isinstance(n, (ast.Import, ast.ImportFrom)):
            for a in n.names:
                if (a.asname or a.name) in EXTRA_BUILTINS:
                    raise Miss(f'{a.name} is imported')
    imm = T.class_of(tree, T.IMMUTABLE)
    init = T.method(imm, '__init__')
    # `_list` is assigned once, in _ImmutableTaskList.__init__
    for n in ast.walk(tree):
        if isinstance(n, ast.Attribute) and n.attr == '_list' and isinstance(n.ctx, (ast.Store, ast.Del)) \
                and n not in ast.walk(init):
            raise Miss('_list is reassigned')
    # the facade classes are constructed by the three getters only, from the raw list of the task itself
    built = [n for n in ast.walk(tree) if isinstance(n, ast.Call) and isinstance(n.func, ast.Name)
             and n.func.id in T.FACADES]
    want = {'children': '_ChildrenList(self, self.__children, self.__set_children)',
            'predecessors': '_PredecessorsList(self, self.__predecessors)',
            'successors': '_SuccessorsList(self, self.__successors)'}
    if len(built) != 3:
        raise Miss('a facade is constructed outside the getters')
    for name, text in want.items():
        g = info.getters.get(name)
        if g is None or [ast.unparse(x) for x in strip_docstring(g.body)] != ['return ' + text] \
                or [a.arg for a in g.args.args] != ['self']:
            raise Miss(f'getter {name}')
    for n in ast.walk(tree):
        if isinstance(n, ast.Attribute) and n.attr in ('__setter', '__parent') and isinstance(n.ctx, (ast.Store, ast.Del)):
            ok = False
            for cname in T.FACADES:
                if n in ast.walk(T.method(T.class_of(tree, cname), '__init__')):
                    ok = True
            if not ok and not (n.attr == '__parent' and n in ast.walk(info.task)):
                raise Miss(f'{n.attr} is reassigned')
    ch = T.class_of(tree, '_ChildrenList')
    init = T.method(ch, '__init__')
    if [a.arg for a in init.args.args] != ['self', 'parent', '_list', '_setter'] or \
            [ast.unparse(x) for x in strip_docstring(init.body)] != \
            ['super().__init__(_list)', 'self.__parent = parent', 'self.__setter = _setter']:
        raise Miss('_ChildrenList.__init__')
    for cname in ('_PredecessorsList', '_SuccessorsList'):
        init = T.method(T.class_of(tree, cname), '__init__')
        if [a.arg for a in init.args.args] != ['self', 'parent', '_list'] or \
                [ast.unparse(x) for x in strip_docstring(init.body)] != \
                ['super().__init__(_list)', 'self.__parent = parent']:
            raise Miss(f'{cname}.__init__')
    # `x += y` on a facade: no `__iadd__` anywhere, `__add__` only in _ImmutableTaskList; no operator method is
    # overridden in the subclasses
    for cname in list(T.FACADES) + ['_TaskList', T.IMMUTABLE]:
        c = T.class_of(tree, cname)
        for f in c.body:
            if isinstance(f, ast.FunctionDef):
                if f.name in ('__iadd__', '__radd__'):
                    raise Miss(f'{cname}.{f.name}')
                if cname != T.IMMUTABLE and f.name in ('__add__', '__lshift__', '__rshift__', '__setattr__',
                                                       '__getattribute__', '__iter__'):
                    raise Miss(f'{cname}.{f.name}')
    for f in info.task.body:
        if isinstance(f, ast.FunctionDef) and f.name in ('__ifloordiv__', '__ilshift__', '__irshift__', '__iadd__',
                                                         '__add__', '__radd__'):
            raise Miss(f'Task.{f.name}')
    sc = info.methods.get(SET_CHILDREN)
    if sc is None or [a.arg for a in sc.args.args] != ['self', 'lst'] or sc.args.defaults or \
            [ast.unparse(x) for x in strip_docstring(sc.body)] != ['self.__children = lst']:
        raise Miss('Task.__set_children')
    # __set_children only occurs in the getter (as the bound method handed to the facade)
    uses = [n for n in ast.walk(tree) if isinstance(n, ast.Attribute) and n.attr == SET_CHILDREN]
    if len(uses) != 1:
        raise Miss('__set_children is used outside the getter')
    for n in ast.walk(tree):
        if isinstance(n, ast.Name) and n.id == OWNER or isinstance(n, ast.arg) and n.arg == OWNER:
            raise Miss(f'{OWNER} occurs in the module')


def facade_field(info, cname):
    fs = [p[1] for p in info.props.values() if p[0] == 'facade' and p[2] == cname]
    if len(fs) != 1:
        raise Miss(f'{cname}: {len(fs)} properties')
    return fs[0]


def plain_method(cls, name):
    f = T.method(cls, name)
    if f.decorator_list:
        raise Miss(f'{cls.name}.{name}: decorators')
    return f


def extract(task_src):
    base = T.extract(task_src)                          # the 25 functions of the program (and all checks they rely on)
    tree = ast.parse(task_src)
    info = T.Info(tree)
    check_module_f(tree, info)
    # the callees: the functions of the base table, as extract_task set them up
    fns = {}
    for name, key in T.MODULE_FUNS.items():
        fns[key] = T.Fn(key, T.module_function(tree, name), name, False)
        fns[key].dropped = T.message_only(fns[key])
        fns[key].params = [p for p in fns[key].all_params if p not in fns[key].dropped]
    for name in T.SETTERS:
        fns[f'Task_{name}_set'] = T.Fn(f'Task_{name}_set', info.setters[name], f'Task.{name} (setter)', True)
    new = {}
    fields = {}
    new['Task_set_children'] = FnF('Task_set_children', info.methods[SET_CHILDREN], 'Task.__set_children', True)
    imm = T.class_of(tree, T.IMMUTABLE)
    for mname, key in IMMUTABLE_METHODS.items():
        new[key] = FnF(key, plain_method(imm, mname), f'{T.IMMUTABLE}.{mname}', False, immutable=True,
                       returns_param=(mname != '__add__'))
    new['ImmutableTaskList_set_parent'] = FnF('ImmutableTaskList_set_parent', plain_method(imm, '__setattr__'),
                                              f'{T.IMMUTABLE}.__setattr__ (key = {SETATTR_KEY!r})', False,
                                              immutable=True, consts={'key': SETATTR_KEY})
    if new['ImmutableTaskList_set_parent'].all_params != ['self', 'key', 'value']:
        raise Miss('__setattr__: parameters')
    for cname, ms in FACADE_METHODS.items():
        c = T.class_of(tree, cname)
        for m in ms:
            key = f'{cname[1:]}_{m}'
            new[key] = FnF(key, plain_method(c, m), f'{cname}.{m}', False, facade=cname)
            fields[key] = facade_field(info, cname)
    for mname, key in TASK_OPERATORS.items():
        node = info.methods.get(mname)
        if node is None:
            raise Miss(f'Task.{mname}')
        new[key] = FnF(key, node, f'Task.{mname}', True, returns_param=True)
    if set(new) != set(NEW_FUNS):
        raise Miss('function table')
    for fn in new.values():
        if not fn.in_task:
            fn.dropped = set()
        ps = [p for p in fn.all_params if p not in fn.consts]
        if fn.fcls:
            ps = [OWNER] + ps[1:]
        elif fn.immutable:
            ps = [LISTP] + ps[1:]
        fn.params = ps
        if OWNER in fn.all_params or LISTP in fn.all_params[1:] or T.GEN_ACC in fn.all_params:
            raise Miss(f'{fn.origin}: parameter names')
    fns.update(new)
    d = {}
    for key in NEW_FUNS:
        fn = new[key]
        tr = TrF(info, fns, fn, fields.get(key))
        stmts = tr.block(strip_docstring(fn.node.body))
        fn.body = stmts
        fn.writes, fn.calls = tr.effects[0]
        d[key] = {'params': fn.params, 'body': stmts, 'origin': fn.origin}
    # `for` / comprehension over the live list of a facade: the body (and the new functions it calls) must not change
    # an attribute of that name.  The callees of the base table write all list fields (the setters), so any call of a
    # setter inside such a loop is rejected.
    base_writes = {k: (set(T.LIST_FIELDS) | {'parent', 'wbs'}) if k.endswith('_set') or k in
                   ('ChildrenList_append', 'Task_attach', 'Task_detach') else set() for k in T.FUNS}
    total = dict(base_writes)
    total.update({k: set(new[k].writes) for k in NEW_FUNS})
    changed = True
    while changed:
        changed = False
        for k in NEW_FUNS:
            for c in new[k].calls:
                if not total[c] <= total[k]:
                    total[k] |= total[c]
                    changed = True
    for k in NEW_FUNS:
        for what, field, writes, calls in new[k].constraints:
            w = set(writes)
            for c in calls:
                w |= total[c]
            if field is None and w:
                raise Miss(f'{new[k].origin}: {what}: {sorted(w)} may be written')
            if field is not None and field in w:
                raise Miss(f'{new[k].origin}: {what} over the attribute {field}, which its body may change')
    d['funs'] = list(NEW_FUNS)
    d['base'] = list(base['funs'])
    return d


# ---- Lean output

def lean_qstr(s):
    """the name of a library primitive (`join:<separator>` carries a string constant of the source)"""
    if not all(32 <= ord(c) < 127 and c not in '"\\' for c in s):
        raise Miss(f'string {s!r}')
    return '"' + s + '"'


def lean_expr(e):
    k = e[0]
    if k == 'callFn':
        return f'(.callFn fn_{FUNS_F[e[1]]} {lean_expr(e[2])})'
    if k == 'fnRef':
        return f'(.fnRef fn_{FUNS_F[e[1]]})'
    if k == 'typeIsS':
        return f'(.typeIsS {lean_expr(e[1])} {lean_str(e[2])})'
    if k in ('nextComp', 'sortedBy'):
        return f'(.{k} {lean_expr(e[1])} {lean_str(e[2])} {lean_expr(e[3])} {lean_expr(e[4])})'
    if k in ('listInsert', 'listRemove', 'indexOf'):
        return f'(.{k} ' + ' '.join(lean_expr(x) for x in e[1:]) + ')'
    if k in ('none', 'listNil'):
        return f'.{k}'
    if k == 'num':
        return f'(.num {e[1]})' if e[1].isdigit() else f'(.num ({e[1]}))'
    if k == 'bool':
        return f'(.bool {"true" if e[1] else "false"})'
    if k == 'var':
        return f'(.var {lean_str(e[1])})'
    if k == 'attr':
        return f'(.attr {lean_expr(e[1])} {lean_str(e[2])})'
    if k == 'typeIs':
        return f'(.typeIs {lean_expr(e[1])} {lean_str(e[2])})'
    if k == 'prim':
        return f'(.prim {lean_qstr(e[1])} {lean_expr(e[2])})'
    if k in ('cmp', 'bin'):
        return f'(.{k} .{e[1]} {lean_expr(e[2])} {lean_expr(e[3])})'
    if k == 'listComp':
        return f'(.listComp {lean_expr(e[1])} {lean_str(e[2])} {lean_expr(e[3])} {lean_expr(e[4])})'
    if k in ('isNone', 'isNotNone', 'not', 'and', 'or', 'isIn', 'isSame', 'listCons', 'len', 'idOf', 'listOf', 'setOf',
             'setInter'):
        return f'(.{k} ' + ' '.join(lean_expr(x) for x in e[1:]) + ')'
    raise Miss(f'lean_expr {e!r}')


def lean_block(b, ind):
    if not b:
        return '[]'
    pad = ' ' * (ind + 1)
    return '[' + (',\n' + pad).join(lean_stmt(s, ind + 1) for s in b) + ']'


def lean_stmt(s, ind):
    k = s[0]
    pad = ' ' * (ind + 2)
    if k == 'assign':
        return f'.assign {lean_str(s[1])} {lean_expr(s[2])}'
    if k == 'aug':
        return f'.aug {lean_str(s[1])} .{s[2]} {lean_expr(s[3])}'
    if k == 'ifElse':
        return f'.ifElse {lean_expr(s[1])}\n{pad}{lean_block(s[2], ind + 2)}\n{pad}{lean_block(s[3], ind + 2)}'
    if k == 'forIn':
        return f'.forIn {lean_str(s[1])} {lean_expr(s[2])}\n{pad}{lean_block(s[3], ind + 2)}'
    if k in ('ret', 'expr'):
        return f'.{k} {lean_expr(s[1])}'
    if k == 'setAttr':
        return f'.setAttr {lean_expr(s[1])} {lean_str(s[2])} {lean_expr(s[3])}'
    if k in ('attrAppend', 'attrRemove'):
        return f'.{k} {lean_expr(s[1])} {lean_str(s[2])} {lean_expr(s[3])}'
    if k == 'attrClear':
        return f'.attrClear {lean_expr(s[1])} {lean_str(s[2])}'
    if k in ('raiseRuntime', 'continue', 'pass'):
        return f'.{k}'
    raise Miss(f'lean_stmt {s!r}')


def to_lean(d):
    if d.get('base') != list(T.FUNS):
        raise Miss('base table')
    out = ('/- GENERATED by tools/extract.py (extract_facade) from /repo/src/pjplan/task.py — '
           'do not edit.  Re-checked by `lake build`. -/\n'
           'import PjVerif.Extracted.TaskSrc\nnamespace Pj.Extracted.Facade\n\n'
           '/-! the list facades and the operators of task.py: further functions of the program `taskFuns`\n'
           '    (Extracted/TaskSrc.lean, functions 0 … ' + str(len(T.FUNS) - 1) + ', the callees) -/\n')
    for i, key in enumerate(d['funs']):
        out += f'def fn_{key} : Nat := {len(T.FUNS) + i}\n'
    out += '\n'
    for key in d['funs']:
        m = d[key]
        params = ', '.join('"' + p + '"' for p in m['params'])
        out += (f'/-- task.py: `{m["origin"]}`, parameters ({", ".join(m["params"])}) -/\n'
                f'def src_{key} : List PyLite.Stmt :=\n  {lean_block(m["body"], 2)}\n\n'
                f'def src_{key}_params : List String := [{params}]\n\n')
    out += ('/-- the extended program: the new functions, and `taskFuns` for the old ones -/\n'
            'def facadeFuns : PyLite.FunTable := fun k =>\n')
    for i, key in enumerate(d['funs']):
        out += f'  {"if" if i == 0 else "else if"} k = fn_{key} then some (src_{key}_params, src_{key})\n'
    out += '  else taskFuns k\n\n'
    return out + 'end Pj.Extracted.Facade\n'


# the translation of the source as of the last successful check (fallback when extract() raises Miss)
PINNED = {'ChildrenList_insert': {'body': [['expr', ['callFn', 6, ['listCons', ['var', 'task'], ['listNil']]]],
                                  ['assign', 'siblings',
                                   ['listComp', ['var', 't'], 't', ['attr', ['var', '_facade_parent'], 'children'],
                                    ['not', ['isSame', ['var', 't'], ['var', 'task']]]]],
                                  ['assign', 'siblings',
                                   ['listInsert', ['var', 'siblings'], ['var', 'index'], ['var', 'task']]],
                                  ['expr',
                                   ['callFn', 15,
                                    ['listCons', ['var', '_facade_parent'],
                                     ['listCons', ['var', 'siblings'], ['listNil']]]]]],
                         'origin': '_ChildrenList.insert',
                         'params': ['_facade_parent', 'index', 'task']},
 'ChildrenList_move': {'body': [['assign', 'tasks', ['callFn', 0, ['listCons', ['var', 'tasks'], ['listNil']]]],
                                ['forIn', 'task', ['var', 'tasks'],
                                 [['ifElse',
                                   ['not',
                                    ['isIn', ['var', 'task'], ['attr', ['var', '_facade_parent'], 'children']]],
                                   [['raiseRuntime']], []]]],
                                ['ifElse',
                                 ['and', ['isNotNone', ['var', 'before']],
                                  ['not',
                                   ['isIn', ['var', 'before'], ['attr', ['var', '_facade_parent'], 'children']]]],
                                 [['raiseRuntime']], []],
                                ['ifElse',
                                 ['and', ['isNotNone', ['var', 'after']],
                                  ['not',
                                   ['isIn', ['var', 'after'], ['attr', ['var', '_facade_parent'], 'children']]]],
                                 [['raiseRuntime']], []],
                                ['ifElse', ['and', ['isNotNone', ['var', 'before']], ['isNotNone', ['var', 'after']]],
                                 [['raiseRuntime']], []],
                                ['ifElse', ['and', ['isNone', ['var', 'before']], ['isNone', ['var', 'after']]],
                                 [['raiseRuntime']], []],
                                ['ifElse',
                                 ['or', ['isIn', ['var', 'before'], ['var', 'tasks']],
                                  ['isIn', ['var', 'after'], ['var', 'tasks']]],
                                 [['raiseRuntime']], []],
                                ['forIn', 'task', ['var', 'tasks'],
                                 [['attrRemove', ['var', '_facade_parent'], 'children', ['var', 'task']],
                                  ['ifElse', ['isNotNone', ['var', 'before']],
                                   [['setAttr', ['var', '_facade_parent'], 'children',
                                     ['listInsert', ['attr', ['var', '_facade_parent'], 'children'],
                                      ['indexOf', ['attr', ['var', '_facade_parent'], 'children'], ['var', 'before']],
                                      ['var', 'task']]]],
                                   [['ifElse', ['isNotNone', ['var', 'after']],
                                     [['setAttr', ['var', '_facade_parent'], 'children',
                                       ['listInsert', ['attr', ['var', '_facade_parent'], 'children'],
                                        ['bin', 'add',
                                         ['indexOf', ['attr', ['var', '_facade_parent'], 'children'],
                                          ['var', 'after']],
                                         ['num', '1']],
                                        ['var', 'task']]]],
                                     [['raiseRuntime']]]]]]],
                                ['expr',
                                 ['callFn', 25,
                                  ['listCons', ['var', '_facade_parent'],
                                   ['listCons', ['attr', ['var', '_facade_parent'], 'children'], ['listNil']]]]]],
                       'origin': '_ChildrenList.move',
                       'params': ['_facade_parent', 'tasks', 'before', 'after']},
 'ChildrenList_remove': {'body': [['expr', ['callFn', 6, ['listCons', ['var', 'task'], ['listNil']]]],
                                  ['ifElse',
                                   ['not',
                                    ['isIn', ['var', 'task'], ['attr', ['var', '_facade_parent'], 'children']]],
                                   [['ret', ['bool', False]]], []],
                                  ['expr',
                                   ['callFn', 15,
                                    ['listCons', ['var', '_facade_parent'],
                                     ['listCons',
                                      ['listComp', ['var', 't'], 't', ['attr', ['var', '_facade_parent'], 'children'],
                                       ['cmp', 'ne', ['var', 't'], ['var', 'task']]],
                                      ['listNil']]]]],
                                  ['ret', ['bool', True]]],
                         'origin': '_ChildrenList.remove',
                         'params': ['_facade_parent', 'task']},
 'ChildrenList_reorder': {'body': [['ifElse', ['isNone', ['fnRef', 25]], [['raiseRuntime']], []],
                                   ['assign', '_all', ['listOf', ['attr', ['var', '_facade_parent'], 'children']]],
                                   ['assign', 'new_list', ['listNil']],
                                   ['forIn', '_id', ['var', 'ids'],
                                    [['assign', 'ch',
                                      ['nextComp', ['var', 't'], 't', ['attr', ['var', '_facade_parent'], 'children'],
                                       ['cmp', 'eq', ['attr', ['var', 't'], 'id'], ['var', '_id']]]],
                                     ['aug', 'new_list', 'add', ['listCons', ['var', 'ch'], ['listNil']]],
                                     ['assign', '_all', ['listRemove', ['var', '_all'], ['var', 'ch']]]]],
                                   ['setAttr', ['var', '_facade_parent'], 'children',
                                    ['bin', 'add', ['var', 'new_list'], ['var', '_all']]],
                                   ['expr',
                                    ['callFn', 25,
                                     ['listCons', ['var', '_facade_parent'],
                                      ['listCons', ['attr', ['var', '_facade_parent'], 'children'], ['listNil']]]]]],
                          'origin': '_ChildrenList.reorder',
                          'params': ['_facade_parent', 'ids']},
 'ChildrenList_sort': {'body': [['ifElse', ['typeIsS', ['var', 'key'], 'str'],
                                 [['setAttr', ['var', '_facade_parent'], 'children',
                                   ['sortedBy',
                                    ['prim', '__getattribute__',
                                     ['listCons', ['var', 'x'], ['listCons', ['var', 'key'], ['listNil']]]],
                                    'x', ['attr', ['var', '_facade_parent'], 'children'], ['var', 'reverse']]]],
                                 [['ifElse',
                                   ['or', ['typeIs', ['var', 'key'], 'list'],
                                    ['or', ['typeIs', ['var', 'key'], 'tuple'], ['typeIs', ['var', 'key'], 'set']]],
                                   [['setAttr', ['var', '_facade_parent'], 'children',
                                     ['sortedBy',
                                      ['prim', 'join:-',
                                       ['listComp',
                                        ['prim', 'str',
                                         ['listCons',
                                          ['prim', '__getattribute__',
                                           ['listCons', ['var', 'x'], ['listCons', ['var', 'k'], ['listNil']]]],
                                          ['listNil']]],
                                        'k', ['var', 'key'], ['bool', True]]],
                                      'x', ['attr', ['var', '_facade_parent'], 'children'], ['var', 'reverse']]]],
                                   [['raiseRuntime']]]]],
                                ['expr',
                                 ['callFn', 25,
                                  ['listCons', ['var', '_facade_parent'],
                                   ['listCons', ['attr', ['var', '_facade_parent'], 'children'], ['listNil']]]]]],
                       'origin': '_ChildrenList.sort',
                       'params': ['_facade_parent', 'key', 'reverse']},
 'ImmutableTaskList_add': {'body': [['ret',
                                     ['bin', 'add', ['var', '_list'],
                                      ['callFn', 0, ['listCons', ['var', 'other'], ['listNil']]]]]],
                           'origin': '_ImmutableTaskList.__add__',
                           'params': ['_list', 'other']},
 'ImmutableTaskList_lshift': {'body': [['forIn', 't', ['var', '_list'],
                                        [['expr',
                                          ['callFn', 18,
                                           ['listCons', ['var', 't'],
                                            ['listCons',
                                             ['callFn', 26,
                                              ['listCons', ['attr', ['var', 't'], 'predecessors'],
                                               ['listCons', ['var', 'other'], ['listNil']]]],
                                             ['listNil']]]]]]],
                                       ['ret', ['var', 'other']]],
                              'origin': '_ImmutableTaskList.__lshift__',
                              'params': ['_list', 'other']},
 'ImmutableTaskList_rshift': {'body': [['forIn', 't', ['var', '_list'],
                                        [['expr',
                                          ['callFn', 21,
                                           ['listCons', ['var', 't'],
                                            ['listCons',
                                             ['callFn', 26,
                                              ['listCons', ['attr', ['var', 't'], 'successors'],
                                               ['listCons', ['var', 'other'], ['listNil']]]],
                                             ['listNil']]]]]]],
                                       ['ret', ['var', 'other']]],
                              'origin': '_ImmutableTaskList.__rshift__',
                              'params': ['_list', 'other']},
 'ImmutableTaskList_set_parent': {'body': [['assign', 'tasks',
                                            ['listComp', ['var', 't'], 't', ['var', '_list'], ['bool', True]]],
                                           ['forIn', 't', ['var', 'tasks'],
                                            [['expr',
                                              ['callFn', 12,
                                               ['listCons', ['var', 't'],
                                                ['listCons', ['var', 'value'], ['listNil']]]]]]]],
                                  'origin': "_ImmutableTaskList.__setattr__ (key = 'parent')",
                                  'params': ['_list', 'value']},
 'PredecessorsList_append': {'body': [['expr', ['callFn', 6, ['listCons', ['var', 'task'], ['listNil']]]],
                                      ['expr',
                                       ['callFn', 18,
                                        ['listCons', ['var', '_facade_parent'],
                                         ['listCons',
                                          ['bin', 'add',
                                           ['listComp', ['var', 'v'], 'v',
                                            ['attr', ['var', '_facade_parent'], 'predecessors'], ['bool', True]],
                                           ['listCons', ['var', 'task'], ['listNil']]],
                                          ['listNil']]]]]],
                             'origin': '_PredecessorsList.append',
                             'params': ['_facade_parent', 'task']},
 'PredecessorsList_remove': {'body': [['expr', ['callFn', 6, ['listCons', ['var', 'task'], ['listNil']]]],
                                      ['ifElse',
                                       ['not',
                                        ['isIn', ['var', 'task'],
                                         ['attr', ['var', '_facade_parent'], 'predecessors']]],
                                       [['ret', ['bool', False]]], []],
                                      ['expr',
                                       ['callFn', 18,
                                        ['listCons', ['var', '_facade_parent'],
                                         ['listCons',
                                          ['listComp', ['var', 'v'], 'v',
                                           ['attr', ['var', '_facade_parent'], 'predecessors'],
                                           ['cmp', 'ne', ['var', 'v'], ['var', 'task']]],
                                          ['listNil']]]]],
                                      ['ret', ['bool', True]]],
                             'origin': '_PredecessorsList.remove',
                             'params': ['_facade_parent', 'task']},
 'SuccessorsList_append': {'body': [['expr', ['callFn', 6, ['listCons', ['var', 'task'], ['listNil']]]],
                                    ['expr',
                                     ['callFn', 21,
                                      ['listCons', ['var', '_facade_parent'],
                                       ['listCons',
                                        ['bin', 'add',
                                         ['listComp', ['var', 'v'], 'v',
                                          ['attr', ['var', '_facade_parent'], 'successors'], ['bool', True]],
                                         ['listCons', ['var', 'task'], ['listNil']]],
                                        ['listNil']]]]]],
                           'origin': '_SuccessorsList.append',
                           'params': ['_facade_parent', 'task']},
 'SuccessorsList_remove': {'body': [['expr', ['callFn', 6, ['listCons', ['var', 'task'], ['listNil']]]],
                                    ['ifElse',
                                     ['not',
                                      ['isIn', ['var', 'task'], ['attr', ['var', '_facade_parent'], 'successors']]],
                                     [['ret', ['bool', False]]], []],
                                    ['expr',
                                     ['callFn', 21,
                                      ['listCons', ['var', '_facade_parent'],
                                       ['listCons',
                                        ['listComp', ['var', 'v'], 'v',
                                         ['attr', ['var', '_facade_parent'], 'successors'],
                                         ['cmp', 'ne', ['var', 'v'], ['var', 'task']]],
                                        ['listNil']]]]],
                                    ['ret', ['bool', True]]],
                           'origin': '_SuccessorsList.remove',
                           'params': ['_facade_parent', 'task']},
 'Task_floordiv': {'body': [['expr',
                             ['callFn', 15,
                              ['listCons', ['var', 'self'],
                               ['listCons',
                                ['callFn', 26,
                                 ['listCons', ['attr', ['var', 'self'], 'children'],
                                  ['listCons', ['var', 'other'], ['listNil']]]],
                                ['listNil']]]]],
                            ['ret', ['var', 'other']]],
                   'origin': 'Task.__floordiv__',
                   'params': ['self', 'other']},
 'Task_lshift': {'body': [['expr',
                           ['callFn', 18,
                            ['listCons', ['var', 'self'],
                             ['listCons',
                              ['callFn', 26,
                               ['listCons', ['attr', ['var', 'self'], 'predecessors'],
                                ['listCons', ['var', 'other'], ['listNil']]]],
                              ['listNil']]]]],
                          ['ret', ['var', 'other']]],
                 'origin': 'Task.__lshift__',
                 'params': ['self', 'other']},
 'Task_rshift': {'body': [['expr',
                           ['callFn', 21,
                            ['listCons', ['var', 'self'],
                             ['listCons',
                              ['callFn', 26,
                               ['listCons', ['attr', ['var', 'self'], 'successors'],
                                ['listCons', ['var', 'other'], ['listNil']]]],
                              ['listNil']]]]],
                          ['ret', ['var', 'other']]],
                 'origin': 'Task.__rshift__',
                 'params': ['self', 'other']},
 'Task_set_children': {'body': [['setAttr', ['var', 'self'], 'children', ['var', 'lst']]],
                       'origin': 'Task.__set_children',
                       'params': ['self', 'lst']},
 'base': ['to_list', 'find_root', 'collect_subtree', 'has_id_intersection', 'linked_with_any', 'unique_objects',
          'check_not_none', 'check_no_nones_in_list', 'Task_attach', 'Task_raw_parent', 'Task_detach',
          'Task_parent_get', 'Task_parent_set', 'Task_get_all_parents', 'Task_get_all_parents_get_parent',
          'Task_children_set', 'Task_get_all_children', 'Task_get_all_children_get_children', 'Task_predecessors_set',
          'Task_get_all_predecessors', 'Task_get_all_predecessors_get_predecessor', 'Task_successors_set',
          'Task_get_all_successors', 'Task_get_all_successors_get_successor', 'ChildrenList_append'],
 'funs': ['Task_set_children', 'ImmutableTaskList_add', 'ChildrenList_remove', 'ChildrenList_insert',
          'PredecessorsList_append', 'PredecessorsList_remove', 'SuccessorsList_append', 'SuccessorsList_remove',
          'Task_floordiv', 'Task_lshift', 'Task_rshift', 'ChildrenList_move', 'ChildrenList_reorder',
          'ChildrenList_sort', 'ImmutableTaskList_lshift', 'ImmutableTaskList_rshift',
          'ImmutableTaskList_set_parent']}


if __name__ == '__main__':
    # python3 extract_facade.py <task.py> [<out.lean> | --pinned]: translate (no pinned fallback)
    import sys
    d = extract(open(sys.argv[1]).read())
    if len(sys.argv) > 2 and sys.argv[2] == '--pinned':
        import pprint
        pprint.pprint(d, width=118, compact=True)
        sys.exit(0)
    text = to_lean(d)
    if len(sys.argv) > 2:
        with open(sys.argv[2], 'w') as f:
            f.write(text)
    else:
        sys.stdout.write(text)
