#!/bin/sh
# seed_validate.sh <Cxx> : validate the candidate in /tmp/wt/<Cxx> (patch_<Cxx>.diff, demo_<Cxx>.py) in a fresh scratch worktree
set -e
P=$1
W=/tmp/wtv/$P
rm -rf $W; mkdir -p /tmp/wtv
git -C /repo worktree add -q --detach $W HEAD
cd $W
echo "== baseline demo (expect exit 0)"; PYTHONPATH=$W/src /venv/bin/python /tmp/wt/$P/demo_$P.py >/tmp/wtv/$P.base.out 2>&1 && echo "exit 0" || echo "exit $?"
git apply /tmp/wt/$P/patch_$P.diff
echo "== suite with patch"; PYTHONPATH=$W/src /venv/bin/python -m pytest -q -p no:cacheprovider 2>&1 | tail -1
echo "== demo with patch (expect exit 1)"; PYTHONPATH=$W/src /venv/bin/python /tmp/wt/$P/demo_$P.py >/tmp/wtv/$P.mut.out 2>&1 && echo "exit 0" || echo "exit $?"
tail -3 /tmp/wtv/$P.mut.out
cd /; git -C /repo worktree remove --force $W
