#!/usr/bin/env python3
"""run_seeded.py [ids…] [--checks C01,C05] : apply each seeded change to /repo, run the quick checks of the property it
targets (or the given ones), undo it, and write seeded/README.md with what each check reported."""
import json, os, re, subprocess, sys
V = os.path.dirname(os.path.dirname(os.path.abspath(__file__)))
REPO = os.environ.get('PJPLAN_REPO', '/repo')


def sh(cmd, cwd=None):
    p = subprocess.run(cmd, shell=True, cwd=cwd, stdout=subprocess.PIPE, stderr=subprocess.STDOUT, text=True)
    return p.returncode, p.stdout


def main():
    args = [a for a in sys.argv[1:] if not a.startswith('--')]
    extra = None
    for a in sys.argv[1:]:
        if a.startswith('--checks'):
            extra = a.split('=', 1)[1].split(',')
    if '--readme-only' in sys.argv:
        args = ['__none__']
    ids = args or sorted(d for d in os.listdir(os.path.join(V, 'seeded')) if os.path.isdir(os.path.join(V, 'seeded', d)))
    results = {}
    rc, out = sh('git status --porcelain', REPO)
    if out.strip():
        print('refusing: /repo has uncommitted changes'); sys.exit(2)
    for sid in ids:
        if sid == '__none__':
            continue
        d = os.path.join(V, 'seeded', sid)
        meta = json.load(open(os.path.join(d, 'meta.json')))
        checks = extra or meta.get('checks') or [meta['property']]
        rc, out = sh(f'git apply {d}/patch.diff', REPO)
        if rc != 0:
            results[sid] = {'error': 'patch does not apply: ' + out[-200:]}
            continue
        try:
            res = {}
            for c in checks:
                rc, out = sh(f'./check {c} --tier quick', V)
                lines = [l for l in out.splitlines() if l.startswith('VIOLATION')]
                res[c] = {'exit': rc, 'violations': lines[:3]}
                print(sid, c, 'exit', rc, lines[:1])
            results[sid] = {'property': meta['property'], 'needs': meta.get('needs'), 'checks': res, 'history': meta.get('history', '')}
        finally:
            sh('git checkout -- .', REPO)
    path = os.path.join(V, 'seeded', 'results.json')
    old = json.load(open(path)) if os.path.exists(path) else {}
    old.update(results)
    json.dump(old, open(path, 'w'), indent=1)
    with open(os.path.join(V, 'seeded', 'README.md'), 'w') as f:
        f.write('# Seeded changes and the checks that catch them\n\n'
                'Each directory holds a change to the library written by an independent sub-agent (given only the property text), '
                're-validated here: the unedited suite still passes with it, `demo.py` fails with it and passes without it.\n'
                '`tools/run_seeded.py` applies each patch to /repo, runs the quick check(s), and undoes it. The history column says what the check did when the change first arrived: every miss was a weakness of a generator, repaired in the generator; none needed a change of a theorem.\n\n'
                '| id | property | needs | check -> result (now) | history |\n|---|---|---|---|---|\n')
        for sid in sorted(old):
            r = old[sid]
            if 'error' in r:
                f.write(f"| {sid} | | | {r['error']} |\n")
                continue
            cs = '; '.join(f"{c}: {'caught (exit 1' + (', no-failing-input-found' if any('no-failing-input-found' in v for v in x['violations']) else ', replay') + ')' if x['exit'] == 1 else 'MISSED (exit %d)' % x['exit']}"
                           for c, x in r['checks'].items())
            hist = r.get('history') or ''
            mp = os.path.join(V, 'seeded', sid, 'meta.json')
            if os.path.exists(mp):
                hist = json.load(open(mp)).get('history', hist)
            f.write(f"| {sid} | {r['property']} | {(r.get('needs') or '')[:150]} | {cs} | {hist} |\n")


if __name__ == '__main__':
    main()
