#!/usr/bin/env python3
"""regenerates MANIFEST.json from the table below (properties not in CLAIMED go to not_applicable)"""
import json, os
V = os.path.dirname(os.path.dirname(os.path.abspath(__file__)))
props = [json.loads(l)['id'] for l in open(os.path.join(V, 'properties.jsonl'))]

NOTE = ("Trusted: Lean 4.33 kernel (axioms of every theorem within propext, Classical.choice, Quot.sound; audited on every run; "
        "no sorry/native_decide/bv_decide/own axioms); the hand-written model is tied to /repo by the differential correspondence "
        "stream of this check (sampling, not proof) and, where the text below says TRANSLATED, by theorems that interpreting the current "
        "source (translated on every run by tools/extract_*.py into the PyLite fragment, Model/PyLite.lean) equals the model - trusted there: "
        "the PyLite interpreter as the meaning of the Python fragment, the translators' node-by-node mapping, the object encodings and the "
        "stated meaning of library primitives; tools/extract.py for extracted constants; Python identity->indices, "
        "exceptions->Err, recursion->fuel, floats->Rat, datetime->rational days, clock->scripted function.")

GRAPH_TIE = ("The model (lean/PjVerif/Model/Graph*.lean) mirrors task.py/wbs.py statement by statement; it is tied to the code by a "
             "correspondence stream: random histories of public mutator calls (legal and illegal arguments, shared ids, several WBSs, "
             "façades kept across calls), each step re-run by the model from the implementation's own pre-state and compared under the "
             "property's projection, while the Lean monitors (the Bool versions of the very predicates the theorems are about) judge the "
             "implementation's observed states. A mismatch or a broken proof triggers a failing-input search.")

TASK_TIE = ("TRANSLATED tie of the relation setters: tools/extract_task.py turns, on every run, the four relation setters of Task (parent, "
            "children, predecessors, successors) and the 21 helpers they call (_to_list, _find_root, _collect_subtree, _unique_objects, "
            "_has_id_intersection, _linked_with_any, _attach, _detach, all_parents/all_children/all_predecessors/all_successors with their "
            "generators, the None checks, _ChildrenList.append) into a PyLite program (Extracted/TaskSrc.lean); *_source_set_parent / "
            "_set_children / _set_predecessors / _set_successors (Lemmas/TaskSrc*.lean) prove that running that program - calls resolved by "
            "running the translated callee, fuel = recursion limit - on the encoding of a graph state gives the encoding of the model's new state "
            "when the model accepts and the model's error class when it rejects, for every state (the parent setter with None on a WBS member "
            "needs the C01 fact that a children list names a task once), unless the model ends in RecursionError. 36 semantic edits tried: all "
            "break a lemma, a kernel-evaluated example or leave the translatable fragment (= broken tie). Not translated: the list facades' own "
            "methods (move, sort, reorder, insert, remove, operators), WBS.remove/remove_all, Task.__init__ - these stay hand-modelled and tied "
            "by the stream; for a rejected call the interpreter's result carries the error class only (that the store is untouched is the "
            "stream's business). ")

WBS_TIE = ("TRANSLATED tie of wbs.py: tools/extract_wbs.py turns WBS.tasks, __getitem__, the roots getter/setter, __floordiv__, remove with its "
           "recursive __remove, remove_all, clone / subtree with __clone, __clone_tasks and its closure link_target into a PyLite program layered "
           "over the program of task.py (a call into task.py runs the translated setters); *_source_tasks / _getitem / _remove / _remove_all / "
           "_roots_set / _wbs_floordiv / _clone / _subtree (Lemmas/WbsSrc*.lean) prove that the runs are the model's wbsTasks / wbsGet / wbsRemove / "
           "forEach wbsRemove / setChildren / floordiv / cloneWbs / cloneSel (clone: on reachable states, for member roots; the three places "
           "where source and model go different ways - dicts keyed by id, relations read while setters run, WBS() made last - are proved "
           "equal). Primitives with pinned source text: Task.clone(), WBS(), copying of a WBS's public attributes, the filter evaluation of "
           "remove_all. 25 semantic edits tried, all caught. ")

FACADE_TIE = ("TRANSLATED tie of the list facades: tools/extract_facade.py turns _ChildrenList.remove / insert / move / reorder / sort, "
              "_PredecessorsList / _SuccessorsList.append / remove, Task.__floordiv__ / __lshift__ / __rshift__ and the list-level << , >> and "
              "bulk parent assignment into 17 further functions of the task.py program; *_source_children_* / _predecessors_* / _successors_* / "
              "_floordiv / _lshift / _rshift / _list_* (Lemmas/FacadeSrc*.lean) prove that the runs are the model's chRemove / chInsert / chMove / "
              "chReorder / chSort / prAppend ... / step (.listLshift ...) for every state (bulk parent = None needs the reachable-state "
              "invariant); the setter theorems lift to the extended program by a monotonicity theorem of the interpreter. Python's stable "
              "sorted() is a primitive proved equal to the model's merge sort; a facade is the one taken from the current state (stale facades "
              "stay with the stream). 47 semantic edits tried, all caught. ")

CRITPATH_TIE = ("TRANSLATED tie: tools/extract_critpath.py turns, on every run, _PNode / _PLink, the eight methods of CriticalPathCalculator and "
                "WBS.critical_path (the end_date = None path; the end_date branch and _find_clusters are pinned by text and unreachable from it) "
                "into a PyLite program; C12_source_critical_path / _perm / _grid (Props/C12Src.lean, Lemmas/CritPathSrc*.lean) prove that "
                "running it on an acyclic WBS whose member leaves have pairwise different ids returns the model's critical tasks as a set / "
                "permutation - an algorithmic equivalence (the source builds an activity-on-arrow network of objects and runs two memoised "
                "recursions, the model characterises the result directly): init_ok (the network built), lpF / ltF (what __forward / __backward "
                "compute), then the float test abs(r) <= 1e-9 * max(1, length) against the model's r = 0, equal when every length is a multiple "
                "of 1/8 and the project shorter than 10^8 (C12_source_critical_path_grid). Numbers are rationals: float rounding inside the "
                "passes is the stream's business (its decimal sub-stream). 26 semantic edits tried: 16 change results and fail kernel-checked "
                "examples, 4 are result-preserving and fail only the lemmas, 2 tolerance variants differ off the grid only, 4 leave the fragment. ")

RENDER_TIE = ("TRANSLATED tie of the Mermaid renderers: tools/extract_render.py turns MermaidNetwork.__label / __src and MermaidGantt."
              "__mermaid_task_state / __mermaid_task / __src into a PyLite program on every run; C19_source_* (Props/C19Src.lean, Lemmas/RenderSrc*.lean) "
              "prove, for every string library whose encoding round-trips, every view (members, title, flags, clock, style texts) and task "
              "description: the network label (quotes removed, both braces escaped) and the whole network source (one edge per predecessor, "
              "Start edges, style lines) are the model's; the Gantt task state (milestone / done / active), the task line and the whole Gantt "
              "source (header lines, sections in first-occurrence order, task lines in WBS order; for section values that are strs) are the "
              "model's. DhtmlxGantt.__data (entries and links) is translated too (tools/extract_dhtmlx.py) and tied by kernel-evaluated runs on "
              "concrete WBSs (tests at the level of the kernel: nested tasks, milestone, outside predecessors / parents, user attributes named "
              "like entry keys, 72 progress cases, every forest on three tasks with every single link). Not translated: to_html, templates, "
              "columns, scales. 10 + 13 semantic edits tried, all caught. ")

PRINT_TIE = ("TRANSLATED tie of the sheet printer: tools/extract_print.py turns _Repr of task.py (cell texts, layout numbers, row sequence, "
             "repr) into a PyLite program on every run; C20_source_* (Props/C20Src.lean, Lemmas/PrintSrc*.lean) prove, for every string library "
             "whose encoding round-trips: the cell text of EVERY field name (link cells with the (external) marker, computed fields, unknown and "
             "differently-cased names, None, datetimes, str()) is the model's cell function; __print_task_subtree hands the table exactly the "
             "model's rows in depth-first order with the colour rule (print_color, level colour, GREY) - for print_color values that are None "
             "or a str; repr returns the model's sheet (header row + rows of every listed task); the two width functions are the model's. "
             "TextTable / colored_text are a primitive whose meaning is the model's render. 11 semantic edits tried, all caught. ")

CSV_TIE = ("TRANSLATED tie of CSV I/O: tools/extract_csv.py turns the cell parsers / formatters, "
           "read_csv, write_csv (io/csv_io.py) and tasks_to_raws / raws_to_wbs (io/raw.py) into a PyLite program on every run; C13_source_* "
           "(Props/C13Src.lean, Lemmas/CsvSrc*.lean) prove, for every meaning of the built-ins (csv module = the model's Csv functions, "
           "strftime / strptime, float(), int(), str()): every cell parser and __format_custom, __parse_header = the model's headerIndex, and "
           "write_csv of a well-formed WBS description = the model's writeCsv of the records; read_csv (success direction, C13_source_read_csv): "
           "for rows with parseable standard cells, pairwise different ids, predecessor ids naming rows and acyclic parent ids the run "
           "returns the store whose roots, children, parents, predecessor lists and task order are given in closed form over the row table. "
           "The last step to the model's literal rebuildForest and the error cases are tied by kernel-evaluated runs on concrete files (tests "
           "at the level of the kernel). 12 semantic edits tried: 8 leave the fragment, 4 fail the runs. ")

LOOPS_TIE = ("TRANSLATED tie of the inner loops: tools/extract_schedule.py turns, on every run, _ResourceUsage.reserved/reserve/__get_key and both "
             "schedulers' __get_resource_nearest_available_date / __shift_by_resource_usage_and_calendar into PyLite terms; the *_source_* theorems "
             "prove that running the translated source on a ledger is the model's function (nearestFwd/shiftFwd/nearestBwd/shiftBwd, reserved) and "
             "leaves the ledger = old rows + the model's rows, for both balance settings - a semantic edit of those methods breaks these proofs (28 "
             "edits tried, all break or leave the translatable fragment, which counts as a broken tie). The recursive passes around the loops are "
             "hand-modelled. ")

PASS_TIE = ("TRANSLATED tie of the recursive passes: tools/extract_pass.py turns ForwardScheduler.__forward_pass, BackwardScheduler.__backward_pass "
            "and both __prepare_tasks into PyLite terms on every run; *_source_forward_pass / *_source_backward_pass prove that interpreting them on "
            "an object store (task attributes as mutable slots, the calculated list, the resource table with setdefault, the scripted clock, the "
            "ledger, recursion) is the model's fwdPass / bwdPass - unless the model run ends in RecursionError, which C14 excludes for real inputs "
            "- and C07_source_prepare that the prepare methods are the model's prepare (82 semantic edits tried in all: each breaks a lemma, a "
            "kernel-evaluated example or leaves the fragment). Not translated: calc() around the passes (validation, clone, the loop over the "
            "roots), property setters of Task. ")

CALC_TIE = ("TRANSLATED tie of the pre-checks and of calc: tools/extract_calc.py turns _validate_graph_isolation, _leaves, _waits_for, _check_loops, "
            "_check_loops_from_task, __check_no_end_dates_in_future and both calc methods into PyLite terms on every run; *_source_calc_forward / "
            "*_source_calc_backward prove that running the translated calc - every call resolved by running the translated source of its callee, "
            "down to calendar.py - is the model's forwardCalc / backwardCalc, errors included, unless the model ends in RecursionError; "
            "C14_source_check_loops / _isolation / _waits_for do the same for the pre-checks. Library calls into task.py / wbs.py (tasks, children, "
            "all_children, all_parents, clone) are primitives with the model's meaning. About 60 semantic edits tried: all break a lemma, a "
            "kernel-evaluated example or leave the fragment. ")

SCHED_TIE = ("The model (lean/PjVerif/Model/Sched.lean, Clone.lean) mirrors schedule.py statement by statement and is tied to the code by a "
             "correspondence stream (random WBSs with links on leaves and summaries, outside predecessors, milestones, fixed dates, 0-3 resources "
             "with weekly/dated/composed/bounded/dead calendars, scripted clock, both balance settings): ordered usage rows, dates and resource "
             "list must be equal; the Bool predicates the theorems conclude are the ones evaluated on the implementation's observation.")

CLAIMED = {
    'C01': dict(
        text=("Theorem C01_step/C01_run (no bound on universe size or history length): every public mutator of the model - parent, "
              "children, predecessor and successor setters, list façades (append/remove/insert/move/sort/reorder), the //, << and >> "
              "operators incl. the list-level ones, roots assignment, WBS.remove/remove_all - maps a well-formed graph (hierarchy stored "
              "consistently on both ends, each child listed once, forest, symmetric acyclic links, no link between ancestor and "
              "descendant) to a well-formed graph whether the call returns or raises; hence every intermediate state of every history "
              "is well-formed. " + GRAPH_TIE + ' ' + TASK_TIE),
        design='5 (C01)', technique='Lean 4 invariant proof by induction over operation histories + differential correspondence + translated tie of the setters (PyLite)'),
    'C02': dict(
        text=("PARTIAL. Theorem C02_partial (all sizes, calendars, clocks): when no task that has children carries a dependency link, a leaf "
              "with unfixed start never starts and never has work reserved on a day earlier than the end day of any own or inherited "
              "prerequisite, the project start day, its min_start day or the current day, and a milestone sits exactly at the latest "
              "prerequisite end (or the project start); hypotheses are the structural facts C01 guarantees (parent pointers agree with children "
              "lists, links stored on both ends), a monotone clock that stays within one day, and outside predecessors being leaves. The full "
              "statement is false on the code with links on summary tasks: C02_full_fails is a kernel-checked counterexample (finding "
              "KF-S2-C02, replayed on the implementation on every run); a failure inside the hypotheses, or one the model does not predict, is "
              "reported as a violation. " + PASS_TIE + SCHED_TIE),
        design='6 (C02)', technique='Lean 4 proof (pass invariant) of the partial statement + kernel-checked counterexample + differential correspondence'),
    'C07': dict(
        text=("Theorems C07_forward / C07_backward / C07_rollup_forward: in every schedule of the model each summary task's start, end, estimate "
              "and spent are the earliest start, latest end and the sums over its children, whatever the user had put there; every task has "
              "start <= end (forward: when user-fixed dates are consistent, i.e. a fixed end comes with a fixed start not after it - the "
              "statement's domain); C07_wbs_start_end_*: WBS.start/WBS.end are the earliest start / latest end over all tasks. " + PASS_TIE + SCHED_TIE),
        design='6 (C07)', technique='Lean 4 proof (pass invariant: frozen-once-calculated, children before parents) + differential correspondence'),
    'C03': dict(
        text=("Theorems C03_forward / C03_backward for every input of the scheduler model (any WBS, resource set, calendars incl. "
              "zero-capacity days, fractional capacities and bounded validity, both balance settings, any clock), no bound on sizes: every "
              "usage row is a positive amount on the resource named by its task on a day whose calendar capacity is positive, and the amounts "
              "booked on one resource and day never exceed that day's capacity (all tasks when balancing, per task otherwise) - independent of "
              "the traversal order (ledger invariant preserved by every placement, proved from the fill-loop specification). "
              "C03_resources_*: every resource named by a member is in the result, supplied ones first in order; C03_default_calendar ties the "
              "extracted DEFAULT_CALENDAR to Mon-Fri 8. The model (lean/PjVerif/Model/Sched.lean + Clone.lean) mirrors schedule.py statement by "
              "statement and is tied to the code by a correspondence stream (random WBSs with links on leaves and summaries, outside "
              "predecessors, milestones, fixed dates, 0-3 resources with weekly/dated/composed/bounded/dead calendars, scripted clock): ordered "
              "usage rows, dates and resource list must be equal; the same Bool predicates the theorems conclude are evaluated on the "
              "implementation's observation, and ResourceUsageReport.reserved/rows are compared with the rows."),
        design='6 (C03)', technique='Lean 4 proof (ledger invariant over the fill-loop specification) + differential correspondence'),
    'C04': dict(
        text=("Theorems C04_forward (7 clauses) and C04_backward (5 clauses) for every input of the scheduler model: every leaf that is neither a "
              "milestone nor completed gets exactly max(estimate - spent, 0) units (defaults filled in) reserved, at most once per day, all on days "
              "from its start day up to strictly before its end and, forward, never before the current day; a scheduler-chosen forward start lies on "
              "the first reserved day, the end within the 24 hours after the last reserved day's midnight, a backward start within the first "
              "reserved day; milestones, completed and summary tasks reserve nothing; user-fixed dates of non-milestone leaves are returned "
              "unchanged. Hypotheses: membership flags describe the WBS, every clock reading of one calc lies on one calendar day; backward: no "
              "user-fixed dates. Time in the model is exact (rational): a remainder whose share of a day is below the microsecond a datetime resolves "
              "(float dust, 2^-40 units) makes the code's end/start coincide with a midnight and puts a reservation outside [start day, end) - "
              "known finding KF-F1-C04, detected by the monitors on dedicated cases of the stream (the model is not consulted for them). "
              + LOOPS_TIE + PASS_TIE + SCHED_TIE),
        design='6 (C04), 12.4', technique='Lean 4 proof (fill-loop specification + per-task placement invariant) + differential correspondence'),
    'C06': dict(
        text=("PARTIAL / split. The Lean model is a function, so purity and determinism of the MODEL hold by construction; that the implementation "
              "behaves as this function - input WBS and tasks untouched (snapshot through every public getter), result a separate WBS with the same "
              "ids, hierarchy, sibling order, links and custom attributes, same result when calc is repeated on the same scheduler object and on a "
              "fresh one - is what this check's correspondence stream tests on every case. Proved: C06_dates_present_* (every task of the result "
              "has start and end) and C06_clock_partial (two clocks whose readings are all not later than the project start, lie on days before every "
              "user-fixed start without fixed end and - when some leaf has no work left - are not later than the midnight of the project start's "
              "day give the identical result, errors included; the first condition was 'on a day before the project start day' until the repair "
              "of the end clamp). The full clock clause is false on the code: C06_clock_full_fails (a leaf without work left, project start not at "
              "midnight) and C06_clock_fixed_start_fails (a user-fixed start in the past: work is booked from the clock on, as C02/C04 demand) are "
              "kernel-checked counterexamples with both clocks not later than the project start (finding KF-S6-C06, replayed on every run). The "
              "scheduler object is also re-used after other calcs, built under another clock, and its calendars / the WBS changed in between. " + CALC_TIE + SCHED_TIE + ' ' + WBS_TIE),
        design='6 (C06)', technique='Lean 4 proof (clock-independence by simulation) + kernel-checked counterexample + differential correspondence with repeated calls'),
    'C08': dict(
        text=("PARTIAL. Proved for every input of the model: C08_noIdle_partial - with balancing on, every day from a leaf's release day (latest "
              "of project start, clock, min_start, prerequisite ends) up to, excluding, its last work day is fully booked on its resource in the "
              "final ledger, when no task that has children carries a link (finding KF-S3-C08 otherwise; also assumes dates not before 1970, the "
              "code's floor for a missing min_start); C08_encode - start = first work day's midnight + share booked before the task, end = "
              "last work day's midnight + share booked up to and including it, whenever the clock is not later than the project start (the "
              "statement's own condition; full since the repair of the end clamp, former finding KF-S6-C08); C08_order - leaves that take part in no dependency get capacity in WBS order (full). "
              "The full no-idle statement has a kernel-checked counterexample (C08_noIdle_full_fails) replayed on the implementation. The last clause (dates do "
              "not change when unrelated tasks are removed, balancing off): C08_removal_free_partial - the dates, estimate, spent and (day, units) "
              "rows of a leaf that takes part in no dependency are a function of its own data, its calendar, the project start, the (constant) "
              "clock and the default estimate, hence equal in any two WBSs that agree on those; for tasks with prerequisites (whose dates depend "
              "on them) the clause rests on the correspondence stream's removal pairs. "
              + PASS_TIE + LOOPS_TIE + SCHED_TIE),
        design='6 (C08)', technique='Lean 4 proof (fill-loop tightness + ledger monotonicity) of partial statements + counterexamples + differential correspondence'),
    'C09': dict(
        text=("PARTIAL. Proved for every WBS without user-fixed dates: C09_deadline (no task ends after the project end), C09_encode (start = midnight "
              "following the first work day minus the share booked up to and including the task; end = midnight following its day minus the share "
              "booked before it was placed); C09_partial - every dependency between member tasks, declared or inherited, has predecessor end <= "
              "successor start, and with balancing on the schedule is late-packed, when no task that has children carries a link (finding "
              "KF-S2-C09, kernel-checked counterexample C09_full_fails replayed on every run) and outside link partners are leaves. "
              + PASS_TIE + LOOPS_TIE + SCHED_TIE),
        design='6 (C09)', technique='Lean 4 proof (backward pass invariant) of partial statements + counterexample + differential correspondence'),
    'C12': dict(
        text=("Theorems for every input of the critical-path model (leaf-level reading of the repaired activity-on-arc network): C12_exact - "
              "the call returns exactly the leaves whose earliest finish plus longest remaining tail equals the project length; C12_total - it "
              "returns (no KeyError) whenever the leaf-level waits-for relation is acyclic; C12_members - only leaf members, each once; "
              "C12_nonempty - never empty when the WBS has a leaf; C12_inherited - predecessors of a task and of all its parents, expanded to "
              "leaf members, bind it. The model is tied to the code by a correspondence stream (links on leaves and summaries, equal-length "
              "branches, zero-length tasks, outside predecessors); the statement's characterisation is also evaluated on the implementation's "
              "result; insensitivity to float rounding cannot be a theorem over rationals and is checked by a second stream with decimal "
              "fractional estimates (0.1+0.2 vs 0.3) judged by the exact characterisation over the decimals; purity by snapshot." + ' ' + CRITPATH_TIE),
        design='7 (C12)', technique='Lean 4 proof (forward/backward pass = ef / project length - tail) + differential correspondence + decimal-tie stream'),
    'C13': dict(
        text=("Three layers, three theorems, each for unbounded inputs. Text: Python's csv dialect (QUOTE_MINIMAL writer, the reader state "
              "machine of _csv.c fed with the lines of a newline='\\n' file) is MODELLED, and C13_text proves that every matrix of strings - "
              "delimiters, quotes, CR, LF, empty rows and fields included - is read back exactly as written; the model itself is validated "
              "against the real csv module by a differential stream. Fields: C13_fields - reading a written file returns the records (None <-> "
              "'', 'True', ';'-joined ids, header lookup by name), C13_bom - a byte-order mark on the first header cell is ignored, C13_fixpoint "
              "- what was read back is reproduced by a further write/read cycle, hence byte-identical files. Structure: C13_structure - "
              "hierarchy and sibling order of a forest of any depth survive the trip through (id, parent_id) rows when ids are unique. "
              "Number/date formatting (str, repr, strftime/strptime) are Python built-ins outside the model. Tie: the model's file text must "
              "equal the bytes write_csv produced, the model's reading and rebuilt forest must equal what read_csv produced; round trip, "
              "fixpoint bytes and hand-written variants (BOM, permuted columns) are also judged on the real objects." + ' ' + CSV_TIE),
        design='7 (C13)', technique='Lean 4 proof (printer/parser round trip of a modelled csv dialect; forest rebuild) + differential correspondence'),
    'C10': dict(
        text=("Theorems about the model of WBS.clone / WBS.subtree (the very sequence of public setter calls wbs.py issues, replayed on the "
              "graph model) for every reachable state (Inv) and every list of member roots, no bound on size: C10_fresh (the copies are new "
              "objects carrying the ids of their originals; old objects keep theirs), C10_accepted (the copy is never rejected on a reachable "
              "state), C10_result_inv (the resulting universe satisfies the full invariant: new WBS owns exactly the copies, ids unique), "
              "C10_source_frame (every field of every task of the source WBS is unchanged), C10_outside_frame (tasks outside the source only "
              "gain mirror entries pointing to copies), C10_iso (for roots none of which lies below another: same hierarchy and sibling order, "
              "owner = the new WBS; links with both ends selected are copied, links to other members are dropped, links to outside tasks stay "
              "attached to those same outside tasks). Field values, custom attributes, WBS-level attributes and independence under later "
              "mutations of either side are object-copy facts of Python outside the graph model: they are compared on the implementation by the "
              "correspondence stream (random reachable graphs, clone and subtree with repeated/nested roots, attributes, up to 4 later "
              "mutations on either side), which also ties the model to wbs.py. " + GRAPH_TIE + ' ' + TASK_TIE + WBS_TIE),
        design='5 (C10), 12.5', technique='Lean 4 proof (simulation of the clone call sequence over the graph model: frame, soundness, completeness, pre-order lemmas) + differential correspondence'),
    'C16': dict(
        text=("Theorems for every reachable state (Inv) and every accepted call: the post-state equals, field by field for EVERY object of the "
              "universe (so the frame - nothing else changes - is part of the statement), a closed-form description written independently of "
              "the setters' control flow (Spec/GraphEff.lean): C16_effect_direct (parent setter, append, predecessor/successor setters and "
              "their append/remove façades, <<, >>, reorder: the list consists of exactly the given tasks, mirror sides updated, a re-parented "
              "task takes its subtree and owner along), C16_effect_children (children = l, roots = l, //, insert(i), remove, remove_all, "
              "WBS.remove: exactly the given tasks in the given order, left-out tasks released with their subtrees), C16_sort (accepted always; "
              "a stable ordered permutation, reversed on request, nothing else changes), C16_move + C16_moveOne (immediately before/after the "
              "anchor, the others keep their relative order), C16_frame_links. The closed forms themselves are what the statement says in "
              "prose; they are evaluated (driver: effectB) on the implementation's own pre/post states in the correspondence stream, together "
              "with mustAcceptB (calls the statement lists as legal must return). " + GRAPH_TIE + ' ' + TASK_TIE + ' ' + WBS_TIE + FACADE_TIE),
        design='5 (C16), 12.5', technique='Lean 4 proof (closed-form effect = model step, incl. merge-sort stability and owner propagation) + differential correspondence with an effect monitor'),
    'C19': dict(
        text=("'Text cannot add, drop or alter entries' is stated as: a plain lexical reader of the emitted source returns exactly the entries of "
              "the WBS. Theorems for all task lists and all single-line names (quotes, braces, angle brackets, '$', ':', commas, look-alike ids): "
              "C19_gantt_line, C19_gantt (one task line per task in WBS order, each reading back as id, start, end, milestone flag), "
              "C19_gantt_sections (with sections: a permutation grouped by section), C19_network (one edge per dependency, one Start edge per "
              "task without predecessors, for every single-line name: braces are written as Mermaid entity codes since the repair of the former "
              "finding KF-R1, whose witness is kept in the corpus and in C19_network_example), C19_data / C19_links / C19_progress (DHTMLX: one "
              "entry per task with id, name, dates, parent id or 0; links numbered 1..k, one per dependency; progress within 0..1). JSON "
              "well-formedness and HTML escaping are json.dumps / html.escape of the standard library: not modelled, judged on the "
              "implementation's output by json.loads / html.unescape in the stream. The model's text must equal the implementation's character "
              "for character (random scheduled WBSs, sections, styles, milestones, hostile names)." + ' ' + RENDER_TIE),
        design='7 (C19), 12.5', technique='Lean 4 proof (printer/reader round trip per rendering) + differential correspondence on the exact text'),
    'C20': dict(
        text=("Theorems about the model of TextTable and _Repr for all tables and sheets: C20_wide (every column is at least as wide as its "
              "longest cell), C20_row_width / C20_aligned (ignoring colour codes every line has the same width, the sum of the column widths "
              "plus two blanks per column), C20_lines (one line per row, joined by single line breaks, when there is at least one field), "
              "C20_rows (one row per task shown: the given tasks and, with children on, all descendants), C20_indent (depth-first order, name "
              "indented three blanks per level, None = empty), C20_links (linked ids, external marker iff owners differ, hidden root shown as "
              "nothing), C20_unknown_field (empty cell). The model's sheet must equal the implementation's text character for character "
              "(random WBSs, names None/long/non-ASCII, unknown and differently-cased fields, themes with too few colours, print_color); line "
              "count, alignment, indentation, link columns and the usage table's one-line-per-day are judged on the implementation's text." + ' ' + PRINT_TIE),
        design='7 (C20)', technique='Lean 4 proof (column-width and ANSI-stripping lemmas) + differential correspondence on the exact text'),
    'C14': dict(
        text=("Theorems C14_forward / C14_backward: for every WBS satisfying the structural invariants (forest stored on both ends, symmetric links; "
              "what C01 guarantees) and every resource set whose calendars do not raise, calc in the model ends in a schedule or RuntimeError - "
              "never RecursionError (fuel exhaustion or a task met again while in progress: excluded by the proved soundness of the DFS pre-check "
              "C14_loopsFrom_sound and a cycle-transfer argument from the pass's call graph to the leaf-level waits-for relation), KeyError, "
              "TypeError, ZeroDivisionError or ValueError. C14_diagnoses_*: an outside predecessor lacking a date, a fixed end in the future "
              "(forward) and a dependency cycle closing through the hierarchy yield RuntimeError; C14_dead_resource_*: a resource without "
              "availability within the horizon yields RuntimeError. The implementation's real horizons (100000 days) are exercised by the stream "
              "(dead calendars). " + CALC_TIE + SCHED_TIE),
        design='6 (C14)', technique='Lean 4 proof (DFS soundness, call-graph acyclicity, fuel sufficiency by pigeonhole) + differential correspondence'),
    'C05': dict(
        text=("Theorems over the same model and invariant (Inv = well-formed + truthful owners + unique ids + bounded): C05_step/C05_run - no "
              "operation, accepted or rejected, along any history can make two different tasks of one WBS or one detached tree share an id; "
              "C05_reject_is_runtime - every rejection on a reachable state is RuntimeError (RecursionError cannot occur: fuel-sufficiency "
              "lemmas; the only other exception class comes from reorder with unknown/repeated ids); C05_clash_rejected; C05_lookup_some/none - "
              "wbs[id] returns the one member with that id and raises RuntimeError exactly when there is none; C05_tasks_members/preorder - "
              "WBS.tasks lists every member exactly once, each directly followed by its descendants, siblings in list order. " + GRAPH_TIE + ' ' + TASK_TIE + ' ' + WBS_TIE),
        design='5 (C05)', technique='Lean 4 invariant proof (joint invariant, induction over histories) + differential correspondence'),
    'C11': dict(
        text=("Theorems: C11_step/C11_run - the owner back-pointer stays truthful (inherited along the parent edge, a WBS root owns itself, "
              "a parentless ordinary task has none) under every operation and history; C11_member_iff - a task reports WBS w exactly when it "
              "is in w.tasks; C11_none_iff; C11_released - tasks left out of an accepted children/roots assignment (hence remove, remove_all, "
              "WBS.remove) report no owner with their whole subtree; C11_reattach - a released subtree whose ids do not clash is accepted by "
              "another WBS. " + GRAPH_TIE + ' ' + TASK_TIE + ' ' + WBS_TIE),
        design='5 (C11)', technique='Lean 4 invariant proof + differential correspondence'),
    'C15': dict(
        text=("PARTIAL. Theorem C15_partial: on every reachable state every mutator except the three element-wise list-level operations "
              "(task_list << x, task_list >> x, bulk attribute assignment on a task list) leaves the state literally unchanged when it raises; "
              "its core is C15_children_validated_no_inner_raise (once the children setter's up-front validation passed, none of the inner "
              "parent-setter calls can raise - needs the joint invariant and fuel sufficiency). The full statement is false on the code for the "
              "three excluded operations: C15_full_fails is a kernel-checked counterexample, replayed on the implementation on every run and "
              "listed as known findings KF-G12a/b/c; any other violation is reported. " + GRAPH_TIE + ' ' + TASK_TIE + ' ' + FACADE_TIE),
        design='5 (C15)', technique='Lean 4 proof (atomicity lemma) + differential correspondence; known findings for element-wise list ops'),
    'C18': dict(
        text=("Here the model is TRANSLATED, not hand-written: tools/extract.py parses the if/elif keyword-suffix chain of "
              "_ImmutableTaskList.__call__ with `ast` on every run and emits it as data (suffix, cut, reject condition) into "
              "lean/PjVerif/Extracted/Query.lean; `holds` is defined from that table. Theorems re-checked against the current source: C18_table "
              "(exactly the documented suffixes, each branch cuts its suffix), C18_kind_meaning / C18_default_meaning (each branch's reject "
              "condition is the negation of the documented meaning for every attribute and filter value), C18_parse (first match = longest "
              "documented suffix), C18_holds(All), C18_absent (a task lacking the attribute never satisfies a comparison or pattern filter), "
              "C18_query (the result is, in list order, exactly the tasks satisfying every filter). A changed operator, slice length or branch "
              "order breaks a proof; the check then searches for a failing input with the documented-meaning monitor. Attribute lookup, bulk "
              "assignment and remove_all (exactly the matched tasks with subtrees, returned) are covered by the correspondence stream."),
        design='5 (C18)', technique='Lean 4 proof over a table extracted from the source by AST translation + differential correspondence'),
    'C17': dict(
        text=("Theorems for every calendar definition, date, search start, direction and horizon: the model of calendar.py/resource.py "
              "evaluates every valid definition to the meaning C17 states (C17_eval_den), constructors reject exactly the invalid "
              "definitions with RuntimeError (C17_ctor_rejects), a resource maps None to 0 (C17_resource_total), the availability search "
              "returns the earliest/latest whole-day offset with positive capacity and raises exactly when none exists within the horizon "
              "(C17_search, C17_search_unique). TRANSLATED tie: tools/extract_calendar.py turns, on every run, the bodies of "
              "get_available_units of the eight calendar classes, Resource.get_available_units and the while loop of "
              "get_nearest_availability_date into terms of a small embedded language (Model/PyLite.lean gives them meaning); "
              "C17_source_eval / C17_source_resource / C17_source_search prove that running the translated source on a calendar object "
              "is the model - a semantic edit of those methods breaks these proofs (14 such edits tried, all break; common harmless "
              "rewrites still check), an edit outside the translatable fragment counts as a broken tie. Constructors, operators' "
              "promotion of numbers and set_units are not translated. In addition the model is tied to the code by a correspondence stream (random nested definitions, "
              "queries on/around every validity bound, searches with small and the real horizon) whose observations are also judged "
              "by the spec-level monitors; a mismatch triggers a failing-input search."),
        design='6 (C17)', technique='Lean 4 proof over an executable model; evaluation and search methods translated from the source (PyLite) and proved equal to the model; differential correspondence with spec monitors'),
}

checks = []
for p in props:
    if p in CLAIMED:
        c = CLAIMED[p]
        checks.append({
            'property_id': p,
            'quick_cmd': f'./check {p} --tier quick',
            'thorough_cmd': f'./check {p} --tier thorough',
            'evidence_file': f'evidence/{p}.json',
            'replay_cmd_template': f'./check {p} --replay {{path}}',
            'engine': 'lean4-model+correspondence',
            'level_claimed': {'category': 'proof', 'text': c['text'], 'design_ref': c['design']},
            'level_note': c.get('note', NOTE),
            'technique': c['technique'],
        })
m = {
    'version': 1,
    'setup_cmd': './setup.sh',
    'hooks': {'guard': 'PJPLAN_VERIF',
              'enable': 'no source hooks are needed: the harness scripts the clock by replacing module globals and reads state through public getters; ./check exports PJPLAN_VERIF=1 for form',
              'baseline_off_cmd': 'cd /repo && /venv/bin/python -m pytest -ra -q -p no:cacheprovider --timeout=900 --continue-on-collection-errors',
              'source_commits': [], 'add_only': True},
    'engines': [{'name': 'lean4-model+correspondence', 'path': 'lean/', 'serves_properties': sorted(CLAIMED),
                 'kind_free_text': 'hand-written executable Lean 4 model (lean/PjVerif/Model), specs and monitors (Spec), theorems (Props), compiled line-protocol driver; Python harness (harness/) runs the real code and the driver on the same cases'}],
    'checks': checks,
    'notes': 'DESIGN.md explains the approach; KNOWN_FINDINGS.txt lists repaired defects and recorded findings; seeded/ holds validated breaking changes.',
    'not_applicable': [{'property_id': p, 'reason': 'not claimed: no sound check could be built for this property (see DESIGN.md)'} for p in props if p not in CLAIMED],
}
json.dump(m, open(os.path.join(V, 'MANIFEST.json'), 'w'), indent=1)
print('claimed', sorted(CLAIMED))
