"""extract_wbs: translate wbs.py - class `WBS` - and the two functions of task.py it reaches beyond the core of
tools/extract_task.py into terms of PyLite, as a program LAYERED over the program of task.py
(lean/PjVerif/Model/PyLiteW.lean, `progW`; lean/PjVerif/Model/PyLite.lean, pass layer, "wbs constructs").

  task.py   _ChildrenList.remove(self, task)      key ChildrenList_remove  (parameters: the task owning the facade, task)
            Task.__floordiv__(self, other)        key Task_floordiv
  wbs.py    the `roots` property: getter / setter keys WBS_roots_get / WBS_roots_set
            the `tasks` property                  key WBS_tasks
            WBS.__getitem__(self, task_id)        key WBS_getitem
            WBS.__floordiv__(self, other)         key WBS_floordiv
            WBS.__remove(self, task_to_remove, current)   key WBS_remove_rec
            WBS.remove(self, task)                key WBS_remove
            WBS.remove_all(self, key, **kwargs)   key WBS_remove_all
            WBS.__clone_tasks(self, roots)        key WBS_clone_tasks
              its closure `link_target(task)`     key WBS_clone_tasks_link_target (parameters: self, cloned_tasks, task)
            WBS.__clone(self, roots)              key WBS_clone_rec
            WBS.clone(self) / WBS.subtree(self, roots)    keys WBS_clone / WBS_subtree

The functions are numbered after those of extract_task.FUNS; `callFn k` with k < len(FUNS) leaves the layer (it is the
call of the translated function of task.py).  Conventions as in extract_task (which this module imports; the core of
task.py must translate): terms are s-expressions, anything outside the subset raises Miss.

Objects.  A WBS object is identified with its hidden root task: `self.__root` (inside class WBS) and `wbs._root()` are
["prim", "_root", [wbs]] (checked: `_root` is `return self.__root`, `__root` is assigned in `__init__` only).  Checked:
WBS defines none of `__eq__`, `__ne__`, `__hash__`, `__bool__`, `__len__`, `__getattr__`, `__getattribute__`,
`__setattr__` (so `task.wbs != self` is identity).
Primitives (their meaning is given on the Lean side, Lemmas/WbsSrc.lean):
  * `<task>.clone()`       ["callVal", ["fnRef", PF_CLONE], [task]] - allocates the next fresh object: same id, no parent,
                           no children, no links, no WBS.  Checked: the text of `Task.clone` and of `Task.__init__`
                           (CLONE_TEXT, INIT_TEXT) - the copied fields (`name`, `estimate`, … and the public attributes)
                           are outside the encoding.
  * `WBS()`                ["callVal", ["fnRef", PF_NEW_WBS], []] - allocates the next fresh object as the hidden root of
                           a new WBS: id EMPTY_TASK_ID, attached to itself.  Checked: the text of `WBS.__init__`
                           (WBS_INIT_TEXT).
  * `self.tasks(key, **kwargs)`   ["prim", "tasks_call", [self, key, kwargs]] - the filter evaluation
                           (`_ImmutableTaskList.__call__`): the list of the chosen members (read-only).
  * `for k in self.__dict__.keys(): if not k.startswith('_'): x.__setattr__(k, self.__getattribute__(k))`
                           ["expr", ["prim", "copy_attrs", [x, self]]] - the public attributes of a WBS object are
                           outside the encoding (read-only: None).
Lists.  As in extract_task; in addition
  * a facade / `_ImmutableTaskList` RETURNED or PASSED ON (`WBS.roots` getter, `self.__clone(self.roots)`) is the list
    it wraps AT THAT TIME (a snapshot value); `_ImmutableTaskList(l)` is `l`; `not l` / `if l` on a local that holds
    such a list is `len(l) == 0` / `len(l) != 0` (checked: `__len__` is `return len(self._list)`, no `__bool__`);
  * `e.children += v` is the `children` setter applied to `e.__children + _to_list(v)` (checked: the facades define no
    `__iadd__`, `_ImmutableTaskList.__add__` is `return self._list.__add__(_to_list(other))`);
  * `self._list` inside `_ChildrenList` is the attribute `children` of the task that owns the facade (the getter
    `children` builds `_ChildrenList(self, self.__children, …)`);
  * a `for` STATEMENT over `<var>.children` whose body (or a function it calls) may change an attribute `children` is
    ["forLive", x, var, "children", body]: the interpreter iterates the live list the way Python's list iterator does
    and is stuck when the list changes while the loop goes on.  A comprehension in that situation is a Miss.
Dicts.  A local assigned a dict comprehension (or the result of a method annotated `-> Dict[...]`) is a dict VALUE
(never changed after its construction: checked - no subscript assignment, no method other than `get` / `values`):
["dictComp", k, v, x, it, cond], `d[k]` = ["dictIndex", d, k], `d.get(k)` = ["dictGet", d, k], `d.values()` (only as
an iterable) = ["dictValues", d].
Closures.  The function nested in `__clone_tasks` is lifted: the enclosing function's variables it reads (`self`,
`cloned_tasks`) become its leading parameters (checked: each is assigned exactly once in the enclosing function, before
the `def`; the closure is only called, never stored).
`try: return next(<generator expression>)` / `except StopIteration: raise RuntimeError(...)`:
["tryExcept", [["ret", ["nextComp", elt, x, it, cond]]], "stopIteration", [["raiseRuntime"]]] (checked: the generator
expression writes nothing).  `isinstance(e, Task)` = ["typeIs", e, "Task"].  `a if c else b` = ["ite", c, a, b]."""
import ast

import extract_task as T
from extract_task import Miss, miss, is_none, strip_docstring, lean_str, Fn, Tr, Info, FUNS, field_of

WFUNS = ['ChildrenList_remove', 'Task_floordiv', 'WBS_roots_get', 'WBS_roots_set', 'WBS_tasks', 'WBS_getitem',
         'WBS_floordiv', 'WBS_remove_rec', 'WBS_remove', 'WBS_remove_all', 'WBS_clone_tasks',
         'WBS_clone_tasks_link_target', 'WBS_clone_rec', 'WBS_clone', 'WBS_subtree']
BASE = len(FUNS)
ALL = list(FUNS) + WFUNS
WBS_METHODS = {'__remove': 'WBS_remove_rec', 'remove': 'WBS_remove', 'remove_all': 'WBS_remove_all',
               '__clone_tasks': 'WBS_clone_tasks', '__clone': 'WBS_clone_rec', 'clone': 'WBS_clone',
               'subtree': 'WBS_subtree', '__getitem__': 'WBS_getitem', '__floordiv__': 'WBS_floordiv'}
PF = ['Task_clone', 'WBS_new']          # the state-changing primitives: `callVal (fnRef k)`
PF_CLONE, PF_NEW_WBS = 0, 1
CLOSURE = 'link_target'
WBS_FORBIDDEN = {'__eq__', '__ne__', '__hash__', '__bool__', '__len__', '__getattr__', '__getattribute__',
                 '__setattr__', '__delattr__', '__iter__', '__contains__'}

CLONE_TEXT = '''def clone(self, **kwargs) -> 'Task':
    cloned = Task(id=self.id, estimate=self.estimate, spent=self.spent)
    for k in self.__dict__.keys():
        if not k.startswith('_'):
            cloned.__setattr__(k, self.__getattribute__(k))
    for k, v in kwargs.items():
        cloned.__setattr__(k, v)
    return cloned'''
INIT_TEXT = '''def __init__(self, id: Any, name: str=None, resource: str=None, start: datetime=None, end: datetime=None, milestone: bool=False, estimate: float=None, spent: float=None, parent: 'Task'=None, children: List['Task']=None, predecessors: List['Task']=None, successors: List['Task']=None, min_start: datetime=None, **kwargs):
    self.__id = id
    self.name = name
    self.resource = resource
    self.start = start
    self.end = end
    self.milestone = milestone
    self.__estimate = None
    self.__spent = None
    self.__wbs: Optional['WBS'] = None
    self.__parent = None
    self.__children = []
    self.__predecessors = []
    self.__successors = []
    self.estimate = estimate
    self.spent = spent
    self.min_start = min_start
    if parent is not None:
        self.parent = parent
    if children is not None:
        self.children = children
    if successors:
        self.successors = successors
    if predecessors:
        self.predecessors = predecessors
    for k, v in kwargs.items():
        self.__setattr__(k, v)'''
WBS_INIT_TEXT = '''def __init__(self, tasks: Iterable[Task]=None, **kwargs):
    self.__root = Task(EMPTY_TASK_ID, **kwargs)
    self.__root._attach(self)
    if tasks:
        self.__root.children = [v.clone() for v in tasks]'''
COPY_ATTRS = "for k in self.__dict__.keys():\n    if not k.startswith('_'):\n        {x}.__setattr__(k, self.__getattribute__(k))"


def text_of(f):
    g = ast.parse(ast.unparse(f)).body[0]
    g.body = strip_docstring(g.body)
    return ast.unparse(g)


class FnW(Fn):
    """a function of the upper table"""

    def __init__(self, key, node, origin, params, in_task=False, facade=False, in_wbs=False, wbs_params=(), closure=None):
        self.key = key
        self.node = node
        self.origin = origin
        self.in_task = in_task
        self.generator = False
        self.facade = facade
        self.nested = {}
        self.in_wbs = in_wbs
        self.all_params = list(params)
        if len(set(self.all_params)) != len(self.all_params):
            raise Miss(f'{origin}: parameters')
        self.wbs_params = set(wbs_params)
        self.dropped = set()
        self.params = list(params)
        self.body = None
        self.writes = set()
        self.calls = set()
        self.constraints = []
        self.closure = closure          # the lifted closure: (name, captured variables)
        self.returns_dict = False


def plain_params(node, origin, allow_kwarg=False):
    a = node.args
    if a.vararg or a.kwonlyargs or a.posonlyargs:
        raise Miss(f'{origin}: signature')
    if a.kwarg and not allow_kwarg:
        raise Miss(f'{origin}: signature')
    for d in a.defaults:
        if not is_none(d):
            raise Miss(f'{origin}: default value')
    ps = [x.arg for x in a.args]
    if a.kwarg:
        ps.append(a.kwarg.arg)
    return ps


class TrW(Tr):
    def __init__(self, info, fns, fn, wbs_cls):
        self.wbs_cls = wbs_cls
        self.dicts = set()              # locals that hold a dict value
        self.listvals = set()           # locals that hold a list value obtained from a primitive
        super().__init__(info, fns, fn)
        if fn.closure:
            self.known |= set()

    # ---- bookkeeping
    def classify_locals(self):
        fn = self.fn.node
        assigns = {}
        for n in ast.walk(fn):
            if isinstance(n, ast.Lambda) or (isinstance(n, ast.FunctionDef) and n is not fn
                                             and not (self.fn.closure and n.name == self.fn.closure[0])):
                raise Miss(f'{self.fn.origin}: nested scope')
            if isinstance(n, ast.Assign):
                for t in n.targets:
                    if isinstance(t, ast.Name):
                        assigns.setdefault(t.id, []).append(n.value)
            elif isinstance(n, ast.AnnAssign) and isinstance(n.target, ast.Name) and n.value is not None:
                assigns.setdefault(n.target.id, []).append(n.value)
            elif isinstance(n, (ast.Global, ast.Nonlocal, ast.With, ast.While, ast.Delete, ast.NamedExpr, ast.Await,
                                ast.AsyncFor, ast.AsyncWith, ast.Starred, ast.Yield, ast.YieldFrom)):
                raise Miss(f'{self.fn.origin}: {type(n).__name__}')
        for x, vals in assigns.items():
            if x in self.fn.all_params:
                continue
            if all(isinstance(v, (ast.List, ast.ListComp)) for v in vals):
                self.fresh.add(x)
            elif len(vals) == 1 and (isinstance(vals[0], ast.DictComp) or self.returns_dict_call(vals[0])):
                self.dicts.add(x)
            elif len(vals) == 1 and self.is_tasks_call(vals[0]):
                self.listvals.add(x)
        # a dict local is a VALUE: no subscript store, no method but get / values
        for n in ast.walk(fn):
            if isinstance(n, ast.Subscript) and not isinstance(n.ctx, ast.Load):
                raise Miss(f'{self.fn.origin}: subscript assignment')
            if isinstance(n, ast.Attribute) and isinstance(n.value, ast.Name) and n.value.id in self.dicts \
                    and n.attr not in ('get', 'values'):
                raise Miss(f'{self.fn.origin}: method {n.attr} of a dict')

    def returns_dict_call(self, v):
        if isinstance(v, ast.Call) and isinstance(v.func, ast.Attribute) and isinstance(v.func.value, ast.Name) \
                and v.func.value.id == 'self' and self.fn.in_wbs and v.func.attr in WBS_METHODS:
            return self.fns[WBS_METHODS[v.func.attr]].returns_dict
        return False

    def is_tasks_call(self, v):
        """`self.tasks(key, **kwargs)`"""
        return self.fn.in_wbs and isinstance(v, ast.Call) and isinstance(v.func, ast.Attribute) \
            and v.func.attr == 'tasks' and isinstance(v.func.value, ast.Name) and v.func.value.id == 'self' \
            and len(v.args) == 1 and isinstance(v.args[0], ast.Name) and len(v.keywords) == 1 \
            and v.keywords[0].arg is None and isinstance(v.keywords[0].value, ast.Name)

    def call(self, key, args):
        self.note_call(key)
        return ['callFn', ALL.index(key), self.arg_list(args)]

    # ---- kinds
    def is_root(self, n):
        """`self.__root` inside class WBS"""
        return self.fn.in_wbs and isinstance(n, ast.Attribute) and n.attr == '__root' and isinstance(n.ctx, ast.Load) \
            and isinstance(n.value, ast.Name) and n.value.id == 'self'

    def is_dict(self, n):
        return isinstance(n, ast.Name) and isinstance(n.ctx, ast.Load) and n.id in self.dicts and n.id in self.known

    def is_facade_list(self, n):
        """`self._list` inside `_ChildrenList`"""
        return self.fn.facade and isinstance(n, ast.Attribute) and n.attr == '_list' and isinstance(n.value, ast.Name) \
            and n.value.id == self.fn.node.args.args[0].arg and isinstance(n.ctx, ast.Load)

    def receiver(self, n):
        if self.is_root(n):
            return self.expr(n)
        if isinstance(n, ast.Subscript) and self.is_dict(n.value):
            return self.expr(n)
        if isinstance(n, ast.Attribute) and not n.attr.startswith('_') and self.info.props.get(n.attr) == \
                ('call', 'Task_parent_get') and not self.is_wbs(n.value):
            return self.expr(n)
        return super().receiver(n)

    def list_field(self, n):
        if self.is_facade_list(n):
            return 'children'
        return super().list_field(n)

    # ---- expressions
    def cond(self, n):
        if isinstance(n, ast.UnaryOp) and isinstance(n.op, ast.Not) and isinstance(n.operand, ast.Name) \
                and n.operand.id in self.listvals and n.operand.id in self.known:
            return ['cmp', 'eq', ['len', ['var', n.operand.id]], ['num', '0']]
        if isinstance(n, ast.Name) and n.id in self.listvals and n.id in self.known:
            return ['cmp', 'ne', ['len', ['var', n.id]], ['num', '0']]
        if isinstance(n, ast.Name) and (n.id in self.dicts or n.id in self.fresh):
            miss(n, 'truthiness of a container')
        return self.expr(n)

    def expr(self, n, ok_facade=False, ok_generator=False):
        if self.is_root(n):
            return ['prim', '_root', self.arg_list([['var', 'self']])]
        if self.is_facade_list(n):
            if not ok_facade:
                miss(n, 'the list of a facade may only be iterated or tested for membership')
            return ['attr', ['var', T.FACADE_OWNER], 'children']
        if isinstance(n, ast.Subscript) and isinstance(n.ctx, ast.Load):
            if not self.is_dict(n.value):
                miss(n, 'subscript')
            return ['dictIndex', ['var', n.value.id], self.expr(n.slice)]
        if isinstance(n, ast.IfExp):
            return ['ite', self.cond(n.test), self.expr(n.body), self.expr(n.orelse)]
        if isinstance(n, ast.BinOp) and isinstance(n.op, ast.FloorDiv):
            if not self.is_root(n.left):
                miss(n, '//')
            return self.call('Task_floordiv', [self.expr(n.left), self.expr(n.right)])
        if isinstance(n, ast.Attribute) and isinstance(n.ctx, ast.Load) and self.fn.in_wbs \
                and isinstance(n.value, ast.Name) and n.value.id == 'self' and n.value.id in self.wbs_vars:
            if n.attr == 'roots':
                return self.call('WBS_roots_get', [['var', 'self']])
            miss(n, 'attribute of a WBS object')
        if isinstance(n, ast.Attribute) and isinstance(n.ctx, ast.Load) and self.facade_attr(n) is not None \
                and self.fn.key == 'WBS_roots_get':
            return self.attribute(n)        # the `roots` getter returns the facade: the list it wraps at that time
        if isinstance(n, (ast.DictComp, ast.GeneratorExp, ast.Dict, ast.Set, ast.SetComp, ast.Tuple)):
            miss(n, 'expression')
        return super().expr(n, ok_facade, ok_generator)

    def call_expr(self, n, ok_generator):
        f = n.func
        if self.is_tasks_call(n):
            return ['prim', 'tasks_call',
                    self.arg_list([['var', 'self'], self.expr(n.args[0]), self.expr(n.keywords[0].value)])]
        if n.keywords or any(isinstance(x, ast.Starred) for x in n.args):
            miss(n, 'call')
        if isinstance(f, ast.Name) and f.id not in self.known:
            if f.id == 'isinstance' and len(n.args) == 2 and isinstance(n.args[1], ast.Name) \
                    and n.args[1].id == T.TASK and T.TASK not in self.known:
                return ['typeIs', self.expr(n.args[0]), T.TASK]
            if f.id == T.WBS and not n.args and self.fn.in_wbs:
                return ['callVal', ['fnRef', PF_NEW_WBS], ['listNil']]
            if f.id == T.IMMUTABLE and len(n.args) == 1 and isinstance(n.args[0], (ast.List, ast.ListComp)):
                return self.expr(n.args[0])
            if self.fn.closure and f.id == self.fn.closure[0]:
                name, captured = self.fn.closure
                if len(n.args) != 1:
                    miss(n, 'call of the closure')
                for c in captured:
                    if c not in self.known:
                        miss(n, f'closure variable {c} is not assigned yet')
                return self.call(f'{self.fn.key}_{name}', [['var', c] for c in captured] + [self.expr(n.args[0])])
        if isinstance(f, ast.Attribute):
            o = f.value
            if f.attr == 'clone' and not n.args and self.plain_var(o):
                return ['callVal', ['fnRef', PF_CLONE], self.arg_list([self.expr(o)])]
            if f.attr == 'get' and len(n.args) == 1 and self.is_dict(o):
                return ['dictGet', ['var', o.id], self.expr(n.args[0])]
            if self.fn.in_wbs and isinstance(o, ast.Name) and o.id == 'self' and f.attr in WBS_METHODS:
                callee = self.fns[WBS_METHODS[f.attr]]
                want = callee.all_params[1:]
                if len(n.args) != len(want):
                    miss(n, f'arguments of {callee.origin}')
                args = []
                for x in n.args:
                    if self.is_wbs(x):
                        miss(x, 'a WBS passed on')
                    args.append(self.expr(x))
                return self.call(callee.key, [['var', 'self']] + args)
            # `<e>.children.remove(x)`: _ChildrenList.remove
            if f.attr == 'remove' and len(n.args) == 1 and isinstance(o, ast.Attribute) \
                    and self.info.props.get(o.attr, (None,))[0] == 'facade' \
                    and self.info.props[o.attr][2] == '_ChildrenList' and self.plain_var(n.args[0]) \
                    and self.plain_var(o.value):
                return self.call('ChildrenList_remove', [self.expr(o.value), self.expr(n.args[0])])
        return super().call_expr(n, ok_generator)

    def iterable(self, n, body_effects, what):
        if isinstance(n, ast.Call) and isinstance(n.func, ast.Attribute) and n.func.attr == 'values' and not n.args \
                and not n.keywords and self.is_dict(n.func.value):
            return ['dictValues', ['var', n.func.value.id]]
        if isinstance(n, ast.Name) and (n.id in self.dicts):
            miss(n, 'iteration over a dict')
        return super().iterable(n, body_effects, what)

    def comp_parts(self, gens, elts, n):
        """the common part of comprehensions / generator expressions: (x, it, cond, translated elts)"""
        if len(gens) != 1:
            miss(n, 'comprehension')
        g = gens[0]
        if g.is_async or not isinstance(g.target, ast.Name):
            miss(n, 'comprehension')
        x = g.target.id
        if x in self.scoped or x in T.BUILTINS or x in T.MODULE_FUNS or x == T.EMPTY_ID or x in self.wbs_vars \
                or x in self.dicts or x in self.listvals or (self.fn.closure and x == self.fn.closure[0]):
            miss(n, 'comprehension variable')
        saved = set(self.known)
        self.known = self.known | {x}
        self.scoped.append(x)
        self.collect()
        try:
            conds = [self.cond(c) for c in g.ifs] or [['bool', True]]
            c = conds[-1]
            for v in reversed(conds[:-1]):
                c = ['and', v, c]
            out = [self.expr(e) for e in elts]
        finally:
            eff = self.collected()
            self.scoped.pop()
            self.known = saved
        it = self.iterable(g.iter, eff, 'comprehension')
        return x, it, c, out, eff

    # ---- statements
    def stmt(self, s):
        if isinstance(s, ast.FunctionDef):
            if not (self.fn.closure and s.name == self.fn.closure[0]):
                miss(s, 'nested function')
            for c in self.fn.closure[1]:
                if c not in self.known:
                    miss(s, f'closure variable {c} is not assigned before the def')
            return []
        if isinstance(s, ast.Try):
            return [self.try_next(s)]
        if isinstance(s, ast.For) and self.copy_attrs_target(s) is not None:
            return [['expr', ['prim', 'copy_attrs', self.arg_list([['var', self.copy_attrs_target(s)], ['var', 'self']])]]]
        if isinstance(s, ast.Assign) and len(s.targets) == 1 and isinstance(s.targets[0], ast.Name):
            x, v = s.targets[0].id, s.value
            if self.fn.closure and x in self.fn.closure[1] and x in self.known:
                miss(s, f'the closure variable {x} is reassigned')
            if isinstance(v, ast.DictComp):
                if x not in self.dicts:
                    miss(s, 'dict comprehension')
                self.new_local(x, s)
                px, it, c, (k, val), _ = self.comp_parts(v.generators, [v.key, v.value], v)
                self.known.add(x)
                return [['assign', x, ['dictComp', k, val, px, it, c]]]
            if isinstance(v, ast.Call) and isinstance(v.func, ast.Name) and v.func.id == T.WBS and self.fn.in_wbs:
                self.new_local(x, s)
                e = self.call_expr(v, False)
                self.known.add(x)
                self.wbs_vars.add(x)
                return [['assign', x, e]]
            if self.is_tasks_call(v):
                if x not in self.listvals:
                    miss(s, 'tasks(...)')
                self.new_local(x, s)
                e = self.call_expr(v, False)
                self.known.add(x)
                return [['assign', x, e]]
        if isinstance(s, ast.AugAssign) and isinstance(s.target, ast.Attribute) and isinstance(s.op, ast.Add):
            # `e.children += v`: the setter applied to `e.__children + _to_list(v)`
            t = s.target
            p = self.info.props.get(t.attr)
            if p and p[0] == 'facade' and p[2] == '_ChildrenList' and self.plain_var(t.value) \
                    and self.plain_var(s.value):
                o = self.expr(t.value)
                rhs = ['bin', 'add', ['attr', o, p[1]], Tr.call(self, 'to_list', [self.expr(s.value)])]
                self.note_call('to_list')
                return [['expr', self.call(f'Task_{t.attr}_set', [o, rhs])]]
            miss(s, 'augmented assignment')
        if isinstance(s, ast.Return) and s.value is not None:
            v = s.value
            if isinstance(v, ast.Name) and v.id in self.known and (
                    v.id in self.fn.all_params or v.id in self.dicts or v.id in self.listvals or v.id in self.wbs_vars):
                return [['ret', ['var', v.id]]]
            if self.fn.key == 'WBS_roots_get':
                return [['ret', self.expr(v, ok_facade=True)]]
            if isinstance(v, ast.Call) and isinstance(v.func, ast.Attribute) and self.fn.in_wbs \
                    and isinstance(v.func.value, ast.Name) and v.func.value.id == 'self' \
                    and v.func.attr in WBS_METHODS and any(self.is_self_roots(a) for a in v.args):
                # `self.__clone(self.roots)`: the facade is passed on as the list it wraps at that time
                return [['ret', self.call_expr(v, False)]]
        return super().stmt(s)

    def is_self_roots(self, n):
        return isinstance(n, ast.Attribute) and n.attr == 'roots' and isinstance(n.value, ast.Name) and n.value.id == 'self'

    def copy_attrs_target(self, s):
        if not self.fn.in_wbs:
            return None
        try:
            body = s.body[0].body[0].value.func.value
        except (AttributeError, IndexError):
            return None
        if isinstance(body, ast.Name) and ast.unparse(s) == COPY_ATTRS.format(x=body.id) and body.id in self.wbs_vars \
                and body.id in self.known and body.id != 'self' and 'k' not in self.fn.all_params:
            return body.id
        return None

    def try_next(self, s):
        if s.orelse or s.finalbody or len(s.handlers) != 1 or len(s.body) != 1:
            miss(s, 'try')
        h = s.handlers[0]
        if h.name is not None or not (isinstance(h.type, ast.Name) and h.type.id == 'StopIteration') \
                or 'StopIteration' in self.known or 'next' in self.known:
            miss(s, 'except')
        b = s.body[0]
        if not (isinstance(b, ast.Return) and isinstance(b.value, ast.Call) and isinstance(b.value.func, ast.Name)
                and b.value.func.id == 'next' and len(b.value.args) == 1 and not b.value.keywords
                and isinstance(b.value.args[0], ast.GeneratorExp)):
            miss(s, 'try body')
        g = b.value.args[0]
        x, it, c, (elt,), eff = self.comp_parts(g.generators, [g.elt], g)
        # the body of the `try` must write nothing: the handler starts from the state before it
        self.fn.constraints.append(('try', None, ['tryExcept', [['ret', ['nextComp', elt, x, it, c]]]]))
        handler = self.block(h.body)
        if handler != [['raiseRuntime']]:
            miss(s, 'handler')
        return ['tryExcept', [['ret', ['nextComp', elt, x, it, c]]], 'stopIteration', handler]

    def attr_assign(self, t, v, s):
        # `o.<property> = <expression>`: the call of the setter; the target is a variable, the root of self, or the owner
        # of the facade, so evaluating it has no effect and the order of evaluation does not matter
        if not t.attr.startswith('_'):
            if isinstance(t.value, ast.Name) and t.value.id in self.wbs_vars and t.value.id in self.known:
                if t.attr == 'roots':
                    return ['expr', self.call('WBS_roots_set', [['var', t.value.id], self.rhs(v)])]
                miss(s, 'assignment to an attribute of a WBS')
            if t.attr in self.info.setters and t.attr in T.SETTERS:
                if self.plain_var(t.value) or self.is_root(t.value):
                    return ['expr', self.call(f'Task_{t.attr}_set', [self.expr(t.value), self.rhs(v)])]
                if self.fn.facade and self.is_facade_owner(t.value):
                    return ['expr', self.call(f'Task_{t.attr}_set', [['var', T.FACADE_OWNER], self.rhs(v)])]
        return super().attr_assign(t, v, s)

    def rhs(self, v):
        if self.is_wbs(v):
            miss(v, 'a WBS assigned to a property')
        return self.expr(v)


# ---- effects, computed on the terms

def walk(t):
    """all sub-terms (lists whose head is a string)"""
    if isinstance(t, list):
        if t and isinstance(t[0], str):
            yield t
        for x in t:
            yield from walk(x)


def direct_effects(term):
    writes, calls = set(), set()
    for t in walk(term):
        if t[0] in ('setAttr', 'attrAppend', 'attrRemove', 'attrClear'):
            writes.add(t[2])
        elif t[0] == 'callFn':
            calls.add(t[1])
    return writes, calls


def total_effects(bodies):
    """function number -> the attributes it (transitively) writes"""
    direct = {k: direct_effects(b) for k, b in bodies.items()}
    total = {k: set(direct[k][0]) for k in bodies}
    changed = True
    while changed:
        changed = False
        for k in bodies:
            for c in direct[k][1]:
                if not total[c] <= total[k]:
                    total[k] |= total[c]
                    changed = True
    return total


def writes_of(term, total):
    w, calls = direct_effects(term)
    for c in calls:
        w |= total[c]
    return w


def fix_loops(stmts, total, origin):
    """a `for` statement over `<var>.f` whose body may write `f` becomes `forLive`; a comprehension: Miss"""
    out = []
    for s in stmts:
        if s[0] == 'forIn':
            body = fix_loops(s[3], total, origin)
            it = s[2]
            if it[0] == 'attr' and it[2] in writes_of(body, total):
                if it[1][0] != 'var':
                    raise Miss(f'{origin}: for over the attribute {it[2]} of an expression, which the body may change')
                s = ['forLive', s[1], it[1], it[2], body]
            else:
                s = ['forIn', s[1], it, body]
        elif s[0] == 'ifElse':
            s = ['ifElse', s[1], fix_loops(s[2], total, origin), fix_loops(s[3], total, origin)]
        elif s[0] == 'tryExcept':
            s = ['tryExcept', fix_loops(s[1], total, origin), s[2], fix_loops(s[3], total, origin)]
        out.append(s)
    return out


def check_comprehensions(term, total, origin):
    for t in walk(term):
        if t[0] in ('listComp', 'nextComp'):
            elt, x, it, c = t[1], t[2], t[3], t[4]
            parts = [elt, c]
        elif t[0] == 'dictComp':
            x, it, c = t[3], t[4], t[5]
            parts = [t[1], t[2], c]
        else:
            continue
        if it[0] == 'attr' and it[2] in writes_of(parts, total):
            raise Miss(f'{origin}: comprehension over the attribute {it[2]}, which it may change')


# ---- the modules

def check_wbs_module(tree, cls):
    imported = {}
    for s in tree.body:
        if isinstance(s, ast.ImportFrom):
            for a in s.names:
                imported[a.asname or a.name] = f'{s.module}.{a.name}'
        elif isinstance(s, ast.Import):
            for a in s.names:
                imported[a.asname or a.name] = a.name
    for name in ('Task', 'EMPTY_TASK_ID', '_ChildrenList', '_ImmutableTaskList', '_to_list'):
        if imported.get(name) != f'pjplan.task.{name}':
            raise Miss(f'wbs.py: import of {name}')
    for s in ast.walk(tree):
        if isinstance(s, (ast.Import, ast.ImportFrom)) and s not in tree.body:
            raise Miss('wbs.py: nested import')
        if isinstance(s, (ast.Global, ast.Nonlocal)):
            raise Miss('wbs.py: global / nonlocal')
    names = {'Task', 'EMPTY_TASK_ID', '_ChildrenList', '_ImmutableTaskList', '_to_list', 'WBS', 'isinstance', 'next',
             'StopIteration', 'RuntimeError', 'len', 'type'}
    for n in ast.walk(tree):
        if isinstance(n, ast.Name) and isinstance(n.ctx, (ast.Store, ast.Del)) and n.id in names:
            raise Miss(f'wbs.py: {n.id} is redefined')
        if isinstance(n, ast.arg) and n.arg in names:
            raise Miss(f'wbs.py: {n.arg} is a parameter')
        if isinstance(n, (ast.FunctionDef, ast.ClassDef)) and n.name in names and n is not cls:
            raise Miss(f'wbs.py: {n.name} is redefined')
    if cls.bases or cls.keywords or cls.decorator_list:
        raise Miss('class WBS')
    for n in ast.walk(tree):
        if isinstance(n, ast.ClassDef) and n is not cls and (n.name == 'WBS' or any(
                isinstance(b, ast.Name) and b.id == 'WBS' for b in n.bases)):
            raise Miss('a second / derived WBS class')
    for f in cls.body:
        if isinstance(f, ast.FunctionDef) and f.name in WBS_FORBIDDEN:
            raise Miss(f'WBS defines {f.name}')
        if not isinstance(f, (ast.FunctionDef, ast.Expr)):
            raise Miss(f'class WBS: {type(f).__name__}')
    # `__root` is assigned in `__init__` only; `_root()` returns it
    init = wbs_method(cls, '__init__')
    for f in cls.body:
        if isinstance(f, ast.FunctionDef) and f is not init:
            for n in ast.walk(f):
                if isinstance(n, ast.Attribute) and n.attr == '__root' and not isinstance(n.ctx, ast.Load):
                    raise Miss(f'WBS.{f.name}: __root is assigned')
    if text_of(init) != WBS_INIT_TEXT:
        raise Miss('WBS.__init__')
    r = wbs_method(cls, '_root')
    if [ast.unparse(s) for s in strip_docstring(r.body)] != ['return self.__root'] or r.decorator_list \
            or [a.arg for a in r.args.args] != ['self']:
        raise Miss('WBS._root')


def wbs_method(cls, name, deco=None):
    fs = []
    for f in cls.body:
        if isinstance(f, ast.FunctionDef) and f.name == name:
            ds = [ast.unparse(d) for d in f.decorator_list]
            if deco is None and not ds or deco is not None and ds == [deco]:
                fs.append(f)
    allf = [f for f in cls.body if isinstance(f, ast.FunctionDef) and f.name == name]
    want = 1 if deco is None or name not in ('roots',) else 2
    if len(fs) != 1 or (deco is None and len(allf) != 1):
        raise Miss(f'WBS.{name}: {len(fs)} definitions')
    return fs[0]


def check_task_module(tree, info):
    """what the primitives and the treatment of the facades rely on"""
    if text_of(T.method(info.task, 'clone')) != CLONE_TEXT:
        raise Miss('Task.clone')
    if text_of(T.method(info.task, '__init__')) != INIT_TEXT:
        raise Miss('Task.__init__')
    if info.props.get('wbs') != ('field', 'wbs') or info.props.get('id') != ('field', 'id'):
        raise Miss('Task.wbs / Task.id')
    if info.props.get('children') != ('facade', 'children', '_ChildrenList'):
        raise Miss('Task.children')
    if info.props.get('all_children') != ('call', 'Task_get_all_children'):
        raise Miss('Task.all_children')
    for f in info.task.body:
        if isinstance(f, ast.FunctionDef) and f.name in ('__ifloordiv__', '__rfloordiv__'):
            raise Miss(f'Task.{f.name}')
    imm = T.class_of(tree, T.IMMUTABLE)
    add = T.method(imm, '__add__')
    if [ast.unparse(s) for s in strip_docstring(add.body)] != ['return self._list.__add__(_to_list(other))'] \
            or [a.arg for a in add.args.args] != ['self', 'other'] or add.decorator_list:
        raise Miss(f'{T.IMMUTABLE}.__add__')
    ln = T.method(imm, '__len__')
    if [ast.unparse(s) for s in strip_docstring(ln.body)] != ['return len(self._list)'] or ln.decorator_list:
        raise Miss(f'{T.IMMUTABLE}.__len__')
    T.method(imm, '__call__')
    for name in list(T.FACADES) + [T.IMMUTABLE, '_TaskList']:
        c = T.class_of(tree, name)
        for f in c.body:
            if isinstance(f, ast.FunctionDef) and f.name in ('__iadd__', '__bool__', '__radd__') \
                    or (isinstance(f, ast.FunctionDef) and name != T.IMMUTABLE and f.name in ('__add__', '__len__')):
                raise Miss(f'{name}.{f.name}')
        for n in ast.walk(c):
            if isinstance(n, ast.Attribute) and n.attr == '_list' and not isinstance(n.ctx, ast.Load) \
                    and not (name == T.IMMUTABLE and n in ast.walk(T.method(imm, '__init__'))):
                raise Miss(f'{name}: _list is reassigned')


def task_fns(tree, info):
    """the table of extract_task (rebuilt: extract() does not export it)"""
    fns = {}
    for name, key in T.MODULE_FUNS.items():
        fns[key] = Fn(key, T.module_function(tree, name), name, False)
    for name, key in T.METHODS.items():
        node = info.methods.get(name)
        if node is None:
            raise Miss(f'Task.{name}')
        nested = {}
        if key in T.GENERATORS:
            gname = T.GENERATORS[key]
            g = T.nested_generator(node, gname, f'Task.{name}')
            gkey = f'{key}_{gname}'
            fns[gkey] = Fn(gkey, g, f'Task.{name}.{gname}', True, generator=True, nested={gname: gkey})
            nested = {gname: gkey}
        fns[key] = Fn(key, node, f'Task.{name}', True, nested=nested)
    for name in T.GETTERS:
        fns[f'Task_{name}_get'] = Fn(f'Task_{name}_get', info.getters[name], f'Task.{name} (getter)', True)
    for name in T.SETTERS:
        fns[f'Task_{name}_set'] = Fn(f'Task_{name}_set', info.setters[name], f'Task.{name} (setter)', True)
    app = T.method(T.class_of(tree, '_ChildrenList'), 'append')
    fns['ChildrenList_append'] = Fn('ChildrenList_append', app, '_ChildrenList.append', False, facade=True)
    if set(fns) != set(FUNS):
        raise Miss('function table of task.py')
    for fn in fns.values():
        fn.dropped = T.message_only(fn) if not fn.in_task else set()
        fn.params = [p for p in fn.all_params if p not in fn.dropped]
        if fn.facade:
            fn.params = [T.FACADE_OWNER] + fn.params[1:]
    return fns


def closure_of(node, origin):
    """the one function nested in `__clone_tasks`: (def, captured variables in order of first use)"""
    defs = [s for s in ast.walk(node) if isinstance(s, ast.FunctionDef) and s is not node]
    if len(defs) != 1 or defs[0] not in node.body or defs[0].name != CLOSURE or defs[0].decorator_list:
        raise Miss(f'{origin}: nested function')
    g = defs[0]
    for n in ast.walk(g):
        if isinstance(n, (ast.FunctionDef, ast.Lambda, ast.ClassDef)) and n is not g:
            raise Miss(f'{origin}.{g.name}: nested scope')
        if isinstance(n, (ast.Yield, ast.YieldFrom, ast.Global, ast.Nonlocal)):
            raise Miss(f'{origin}.{g.name}: {type(n).__name__}')
    params = plain_params(g, f'{origin}.{g.name}')
    local = set(params) | {n.id for n in ast.walk(g) if isinstance(n, ast.Name) and isinstance(n.ctx, ast.Store)}
    outer = {a.arg for a in node.args.args} | {n.id for n in ast.walk(node) if isinstance(n, ast.Name)
                                              and isinstance(n.ctx, ast.Store) and n not in ast.walk(g)}
    captured = []
    for n in ast.walk(g):
        if isinstance(n, ast.Name) and isinstance(n.ctx, ast.Load) and n.id in outer and n.id not in local \
                and n.id not in captured:
            captured.append(n.id)
    captured.sort(key=lambda c: (c != 'self', c))
    # every captured variable is bound exactly once in the enclosing function (a parameter, or one assignment)
    for c in captured:
        stores = [n for n in ast.walk(node) if isinstance(n, ast.Name) and n.id == c and isinstance(n.ctx, ast.Store)
                  and n not in ast.walk(g)]
        is_param = c in {a.arg for a in node.args.args}
        if len(stores) + (1 if is_param else 0) != 1:
            raise Miss(f'{origin}: the closure variable {c} is bound {len(stores)} times')
    # the closure is only called
    for n in ast.walk(node):
        if isinstance(n, ast.Name) and n.id == g.name and isinstance(n.ctx, ast.Load):
            parents = [p for p in ast.walk(node) if isinstance(p, ast.Call) and p.func is n]
            if not parents:
                raise Miss(f'{origin}: the closure {g.name} is used as a value')
    return g, captured


def extract(task_src, wbs_src):
    base = T.extract(task_src)                      # the core of task.py must translate
    if base['funs'] != list(FUNS):
        raise Miss('function table of task.py')
    ttree = ast.parse(task_src)
    info = Info(ttree)
    check_task_module(ttree, info)
    wtree = ast.parse(wbs_src)
    cls = [c for c in wtree.body if isinstance(c, ast.ClassDef) and c.name == T.WBS]
    if len(cls) != 1:
        raise Miss('class WBS')
    cls = cls[0]
    check_wbs_module(wtree, cls)
    for name in (T.GEN_ACC, T.FACADE_OWNER):
        if name in wbs_src:
            raise Miss(f'{name} occurs in wbs.py')
    fns = task_fns(ttree, info)
    # the upper table
    rem = T.method(T.class_of(ttree, '_ChildrenList'), 'remove')
    if rem.decorator_list:
        raise Miss('_ChildrenList.remove')
    ps = plain_params(rem, '_ChildrenList.remove')
    fns['ChildrenList_remove'] = FnW('ChildrenList_remove', rem, '_ChildrenList.remove', ps, facade=True)
    fns['ChildrenList_remove'].params = [T.FACADE_OWNER] + ps[1:]
    fd = info.methods.get('__floordiv__')
    if fd is None:
        raise Miss('Task.__floordiv__')
    fns['Task_floordiv'] = FnW('Task_floordiv', fd, 'Task.__floordiv__', plain_params(fd, 'Task.__floordiv__'),
                               in_task=True)
    rg, rs = wbs_method(cls, 'roots', 'property'), wbs_method(cls, 'roots', 'roots.setter')
    tg = wbs_method(cls, 'tasks', 'property')
    for f in cls.body:
        if isinstance(f, ast.FunctionDef) and f.name in ('roots', 'tasks') and f not in (rg, rs, tg):
            raise Miss(f'WBS.{f.name}: another definition')

    def wfn(key, node, origin, allow_kwarg=False, closure=None):
        fns[key] = FnW(key, node, origin, plain_params(node, origin, allow_kwarg), in_wbs=True, wbs_params={'self'},
                       closure=closure)
        if node.args.args[0].arg != 'self':
            raise Miss(f'{origin}: self')
        r = node.returns
        fns[key].returns_dict = r is not None and ast.unparse(r).startswith('Dict[')
    wfn('WBS_roots_get', rg, 'WBS.roots (getter)')
    wfn('WBS_roots_set', rs, 'WBS.roots (setter)')
    wfn('WBS_tasks', tg, 'WBS.tasks')
    for name, key in WBS_METHODS.items():
        node = wbs_method(cls, name)
        if key == 'WBS_clone_tasks':
            g, captured = closure_of(node, f'WBS.{name}')
            wfn(key, node, f'WBS.{name}', closure=(g.name, captured))
            ckey = f'{key}_{g.name}'
            gp = plain_params(g, f'WBS.{name}.{g.name}')
            if set(gp) & set(captured):
                raise Miss(f'WBS.{name}.{g.name}: parameters')
            fns[ckey] = FnW(ckey, g, f'WBS.{name}.{g.name}', captured + gp, in_wbs=True,
                            wbs_params={'self'} & set(captured))
            fns[ckey].captured = captured
        else:
            wfn(key, node, f'WBS.{name}', allow_kwarg=(key == 'WBS_remove_all'))
    if set(fns) != set(ALL):
        raise Miss('function table')
    d = {}
    bodies = {i: base[k]['body'] for i, k in enumerate(FUNS)}
    for key in WFUNS:
        fn = fns[key]
        tr = TrW(info, fns, fn, cls)
        if key == 'WBS_clone_tasks_link_target':
            # the captured dict is a dict value inside the closure too
            for c in fn.captured:
                if c != 'self':
                    tr.dicts.add(c)
        stmts = tr.block(strip_docstring(fn.node.body))
        fn.body = stmts
        d[key] = {'params': fn.params, 'body': stmts, 'origin': fn.origin}
        bodies[ALL.index(key)] = stmts
    total = total_effects(bodies)
    for key in WFUNS:
        d[key]['body'] = fix_loops(d[key]['body'], total, d[key]['origin'])
        bodies[ALL.index(key)] = d[key]['body']
    total = total_effects(bodies)
    for key in WFUNS:
        check_comprehensions(d[key]['body'], total, d[key]['origin'])
        for c in fns[key].constraints:
            if c[0] == 'try' and writes_of(c[2], total):
                raise Miss(f'{d[key]["origin"]}: the body of the try may write {sorted(writes_of(c[2], total))}')
        # the generators of task.py must not be suspended while something is written: the upper layer consumes them
        # through `all_children` (a list built by task.py itself) only
    d['funs'] = list(WFUNS)
    d['base'] = BASE
    return d


# ---- Lean output

def lean_expr(e):
    k = e[0]
    if k == 'callFn':
        return f'(.callFn fn_{ALL[e[1]]} {lean_expr(e[2])})'
    if k == 'callVal':
        return f'(.callVal {lean_expr(e[1])} {lean_expr(e[2])})'
    if k == 'fnRef':
        return f'(.fnRef pf_{PF[e[1]]})'
    if k == 'attr':
        return f'(.attr {lean_expr(e[1])} {lean_str(e[2])})'
    if k == 'typeIs':
        return f'(.typeIs {lean_expr(e[1])} {lean_str(e[2])})'
    if k == 'prim':
        return f'(.prim {lean_str(e[1])} {lean_expr(e[2])})'
    if k in ('cmp', 'bin'):
        return f'(.{k} .{e[1]} {lean_expr(e[2])} {lean_expr(e[3])})'
    if k in ('listComp', 'nextComp'):
        return f'(.{k} {lean_expr(e[1])} {lean_str(e[2])} {lean_expr(e[3])} {lean_expr(e[4])})'
    if k == 'dictComp':
        return f'(.dictComp {lean_expr(e[1])} {lean_expr(e[2])} {lean_str(e[3])} {lean_expr(e[4])} {lean_expr(e[5])})'
    if k in ('dictGet', 'dictIndex', 'dictValues', 'ite'):
        return f'(.{k} ' + ' '.join(lean_expr(x) for x in e[1:]) + ')'
    return base_lean_expr(e)


def base_lean_expr(e):
    k = e[0]
    if k in ('none', 'listNil'):
        return f'.{k}'
    if k == 'num':
        return f'(.num {e[1]})' if e[1].isdigit() else f'(.num ({e[1]}))'
    if k == 'bool':
        return f'(.bool {"true" if e[1] else "false"})'
    if k == 'var':
        return f'(.var {lean_str(e[1])})'
    if k in ('isNone', 'isNotNone', 'not', 'and', 'or', 'isIn', 'isSame', 'listCons', 'len', 'idOf', 'listOf', 'setOf',
             'setInter'):
        return f'(.{k} ' + ' '.join(lean_expr(x) for x in e[1:]) + ')'
    raise Miss(f'lean_expr {e!r}')


def lean_block(b, ind):
    if not b:
        return '[]'
    pad = ' ' * (ind + 1)
    return '[' + (',\n' + pad).join(lean_stmt(s, ind + 1) for s in b) + ']'


def lean_stmt(s, ind):
    k = s[0]
    pad = ' ' * (ind + 2)
    if k == 'assign':
        return f'.assign {lean_str(s[1])} {lean_expr(s[2])}'
    if k == 'aug':
        return f'.aug {lean_str(s[1])} .{s[2]} {lean_expr(s[3])}'
    if k == 'ifElse':
        return f'.ifElse {lean_expr(s[1])}\n{pad}{lean_block(s[2], ind + 2)}\n{pad}{lean_block(s[3], ind + 2)}'
    if k == 'forIn':
        return f'.forIn {lean_str(s[1])} {lean_expr(s[2])}\n{pad}{lean_block(s[3], ind + 2)}'
    if k == 'forLive':
        return f'.forLive {lean_str(s[1])} {lean_expr(s[2])} {lean_str(s[3])}\n{pad}{lean_block(s[4], ind + 2)}'
    if k == 'tryExcept':
        return (f'.tryExcept\n{pad}{lean_block(s[1], ind + 2)}\n{pad}(.crash .{s[2]})\n'
                f'{pad}{lean_block(s[3], ind + 2)}')
    if k in ('ret', 'expr'):
        return f'.{k} {lean_expr(s[1])}'
    if k in ('raiseRuntime', 'continue', 'pass'):
        return f'.{k}'
    raise Miss(f'lean_stmt {s!r}')


def to_lean(d):
    out = ('/- GENERATED by tools/extract.py (extract_wbs) from /repo/src/pjplan/wbs.py and task.py — '
           'do not edit.  Re-checked by `lake build`. -/\n'
           'import PjVerif.Model.PyLiteW\nimport PjVerif.Extracted.TaskSrc\nnamespace Pj.Extracted\n\n'
           '/-! the function table of wbs.py, layered over `taskFuns`: `callFn k` with a number below calls the k-th '
           'function of this\n    table, with a smaller number the function of task.py -/\n')
    for i, key in enumerate(d['funs']):
        out += f'def fn_{key} : Nat := {d["base"] + i}\n'
    out += '\n/-! the state-changing primitives (`callVal (fnRef k)`): the constructors -/\n'
    for i, key in enumerate(PF):
        out += f'def pf_{key} : Nat := {i}\n'
    out += '\n'
    for key in d['funs']:
        m = d[key]
        params = ', '.join('"' + p + '"' for p in m['params'])
        out += (f'/-- `{m["origin"]}`, parameters ({", ".join(m["params"])}) -/\n'
                f'def src_{key} : List PyLite.Stmt :=\n  {lean_block(m["body"], 2)}\n\n'
                f'def src_{key}_params : List String := [{params}]\n\n')
    out += ('/-- the upper program: function number ↦ parameters and body -/\n'
            'def wbsFuns : PyLite.FunTable := fun k =>\n')
    for i, key in enumerate(d['funs']):
        out += f'  {"if" if i == 0 else "else if"} k = fn_{key} then some (src_{key}_params, src_{key})\n'
    out += '  else none\n\n'
    return out + 'end Pj.Extracted\n'


# the translation of the source as of the last successful check (fallback when extract() raises Miss)
PINNED = {'ChildrenList_remove': {'body': [['expr', ['callFn', 6, ['listCons', ['var', 'task'], ['listNil']]]],
                                  ['ifElse',
                                   ['not',
                                    ['isIn', ['var', 'task'], ['attr', ['var', '_facade_parent'], 'children']]],
                                   [['ret', ['bool', False]]], []],
                                  ['expr',
                                   ['callFn', 15,
                                    ['listCons', ['var', '_facade_parent'],
                                     ['listCons',
                                      ['listComp', ['var', 't'], 't', ['attr', ['var', '_facade_parent'], 'children'],
                                       ['cmp', 'ne', ['var', 't'], ['var', 'task']]],
                                      ['listNil']]]]],
                                  ['ret', ['bool', True]]],
                         'origin': '_ChildrenList.remove',
                         'params': ['_facade_parent', 'task']},
 'Task_floordiv': {'body': [['expr',
                             ['callFn', 15,
                              ['listCons', ['var', 'self'],
                               ['listCons',
                                ['bin', 'add', ['attr', ['var', 'self'], 'children'],
                                 ['callFn', 0, ['listCons', ['var', 'other'], ['listNil']]]],
                                ['listNil']]]]],
                            ['ret', ['var', 'other']]],
                   'origin': 'Task.__floordiv__',
                   'params': ['self', 'other']},
 'WBS_clone': {'body': [['ret',
                         ['callFn', 37,
                          ['listCons', ['var', 'self'],
                           ['listCons', ['callFn', 27, ['listCons', ['var', 'self'], ['listNil']]], ['listNil']]]]]],
               'origin': 'WBS.clone',
               'params': ['self']},
 'WBS_clone_rec': {'body': [['assign', 'cloned_tasks',
                             ['callFn', 35,
                              ['listCons', ['var', 'self'], ['listCons', ['var', 'roots'], ['listNil']]]]],
                            ['assign', 'cloned_project', ['callVal', ['fnRef', 1], ['listNil']]],
                            ['expr',
                             ['callFn', 28,
                              ['listCons', ['var', 'cloned_project'],
                               ['listCons',
                                ['listComp', ['dictIndex', ['var', 'cloned_tasks'], ['attr', ['var', 'r'], 'id']],
                                 'r', ['var', 'roots'], ['bool', True]],
                                ['listNil']]]]],
                            ['expr',
                             ['prim', 'copy_attrs',
                              ['listCons', ['var', 'cloned_project'], ['listCons', ['var', 'self'], ['listNil']]]]],
                            ['ret', ['var', 'cloned_project']]],
                   'origin': 'WBS.__clone',
                   'params': ['self', 'roots']},
 'WBS_clone_tasks': {'body': [['assign', 'all_tasks_list', ['listNil']],
                              ['forIn', 'r', ['var', 'roots'],
                               [['aug', 'all_tasks_list', 'add', ['listCons', ['var', 'r'], ['listNil']]],
                                ['aug', 'all_tasks_list', 'add',
                                 ['listComp', ['var', 't'], 't',
                                  ['callFn', 16, ['listCons', ['var', 'r'], ['listNil']]], ['bool', True]]]]],
                              ['assign', 'all_tasks',
                               ['dictComp', ['attr', ['var', 'task'], 'id'], ['var', 'task'], 'task',
                                ['var', 'all_tasks_list'], ['bool', True]]],
                              ['assign', 'cloned_tasks',
                               ['dictComp', ['attr', ['var', 'task'], 'id'],
                                ['callVal', ['fnRef', 0], ['listCons', ['var', 'task'], ['listNil']]], 'task',
                                ['dictValues', ['var', 'all_tasks']], ['bool', True]]],
                              ['forIn', 't', ['dictValues', ['var', 'all_tasks']],
                               [['assign', 'c', ['dictIndex', ['var', 'cloned_tasks'], ['attr', ['var', 't'], 'id']]],
                                ['expr',
                                 ['callFn', 12,
                                  ['listCons', ['var', 'c'],
                                   ['listCons',
                                    ['ite',
                                     ['callFn', 11,
                                      ['listCons', ['dictIndex', ['var', 'all_tasks'], ['attr', ['var', 't'], 'id']],
                                       ['listNil']]],
                                     ['dictGet', ['var', 'cloned_tasks'],
                                      ['attr',
                                       ['callFn', 11,
                                        ['listCons',
                                         ['dictIndex', ['var', 'all_tasks'], ['attr', ['var', 't'], 'id']],
                                         ['listNil']]],
                                       'id']],
                                     ['none']],
                                    ['listNil']]]]],
                                ['expr',
                                 ['callFn', 15,
                                  ['listCons', ['var', 'c'],
                                   ['listCons',
                                    ['listComp',
                                     ['dictIndex', ['var', 'cloned_tasks'], ['attr', ['var', 'ch'], 'id']], 'ch',
                                     ['attr', ['dictIndex', ['var', 'all_tasks'], ['attr', ['var', 't'], 'id']],
                                      'children'],
                                     ['bool', True]],
                                    ['listNil']]]]],
                                ['expr',
                                 ['callFn', 18,
                                  ['listCons', ['var', 'c'],
                                   ['listCons',
                                    ['listComp', ['var', 'v'], 'v',
                                     ['listComp',
                                      ['callFn', 36,
                                       ['listCons', ['var', 'self'],
                                        ['listCons', ['var', 'cloned_tasks'],
                                         ['listCons', ['var', 'ch'], ['listNil']]]]],
                                      'ch',
                                      ['attr', ['dictIndex', ['var', 'all_tasks'], ['attr', ['var', 't'], 'id']],
                                       'predecessors'],
                                      ['bool', True]],
                                     ['isNotNone', ['var', 'v']]],
                                    ['listNil']]]]],
                                ['expr',
                                 ['callFn', 21,
                                  ['listCons', ['var', 'c'],
                                   ['listCons',
                                    ['listComp', ['var', 'v'], 'v',
                                     ['listComp',
                                      ['callFn', 36,
                                       ['listCons', ['var', 'self'],
                                        ['listCons', ['var', 'cloned_tasks'],
                                         ['listCons', ['var', 'ch'], ['listNil']]]]],
                                      'ch',
                                      ['attr', ['dictIndex', ['var', 'all_tasks'], ['attr', ['var', 't'], 'id']],
                                       'successors'],
                                      ['bool', True]],
                                     ['isNotNone', ['var', 'v']]],
                                    ['listNil']]]]]]],
                              ['ret', ['var', 'cloned_tasks']]],
                     'origin': 'WBS.__clone_tasks',
                     'params': ['self', 'roots']},
 'WBS_clone_tasks_link_target': {'body': [['ifElse', ['cmp', 'ne', ['attr', ['var', 'task'], 'wbs'], ['var', 'self']],
                                           [['ret', ['var', 'task']]], []],
                                          ['ret',
                                           ['dictGet', ['var', 'cloned_tasks'], ['attr', ['var', 'task'], 'id']]]],
                                 'origin': 'WBS.__clone_tasks.link_target',
                                 'params': ['self', 'cloned_tasks', 'task']},
 'WBS_floordiv': {'body': [['ret',
                            ['callFn', 26,
                             ['listCons', ['prim', '_root', ['listCons', ['var', 'self'], ['listNil']]],
                              ['listCons', ['var', 'other'], ['listNil']]]]]],
                  'origin': 'WBS.__floordiv__',
                  'params': ['self', 'other']},
 'WBS_getitem': {'body': [['tryExcept',
                           [['ret',
                             ['nextComp', ['var', 't'], 't',
                              ['callFn', 16,
                               ['listCons', ['prim', '_root', ['listCons', ['var', 'self'], ['listNil']]],
                                ['listNil']]],
                              ['cmp', 'eq', ['attr', ['var', 't'], 'id'], ['var', 'task_id']]]]],
                           'stopIteration', [['raiseRuntime']]]],
                 'origin': 'WBS.__getitem__',
                 'params': ['self', 'task_id']},
 'WBS_remove': {'body': [['ifElse', ['not', ['typeIs', ['var', 'task'], 'Task']], [['raiseRuntime']], []],
                         ['ret',
                          ['callFn', 32,
                           ['listCons', ['var', 'self'],
                            ['listCons', ['var', 'task'],
                             ['listCons', ['prim', '_root', ['listCons', ['var', 'self'], ['listNil']]],
                              ['listNil']]]]]]],
                'origin': 'WBS.remove',
                'params': ['self', 'task']},
 'WBS_remove_all': {'body': [['assign', 'tasks_to_delete',
                              ['prim', 'tasks_call',
                               ['listCons', ['var', 'self'],
                                ['listCons', ['var', 'key'], ['listCons', ['var', 'kwargs'], ['listNil']]]]]],
                             ['ifElse', ['cmp', 'eq', ['len', ['var', 'tasks_to_delete']], ['num', '0']],
                              [['ret', ['listNil']]], []],
                             ['forIn', 't', ['var', 'tasks_to_delete'],
                              [['expr',
                                ['callFn', 32,
                                 ['listCons', ['var', 'self'],
                                  ['listCons', ['var', 't'],
                                   ['listCons', ['prim', '_root', ['listCons', ['var', 'self'], ['listNil']]],
                                    ['listNil']]]]]]]],
                             ['ret', ['var', 'tasks_to_delete']]],
                    'origin': 'WBS.remove_all',
                    'params': ['self', 'key', 'kwargs']},
 'WBS_remove_rec': {'body': [['ifElse', ['isNone', ['var', 'task_to_remove']], [['ret', ['bool', False]]], []],
                             ['ifElse',
                              ['callFn', 25,
                               ['listCons', ['var', 'current'],
                                ['listCons', ['var', 'task_to_remove'], ['listNil']]]],
                              [['ret', ['bool', True]]], []],
                             ['forLive', 'ch', ['var', 'current'], 'children',
                              [['ifElse',
                                ['callFn', 32,
                                 ['listCons', ['var', 'self'],
                                  ['listCons', ['var', 'task_to_remove'], ['listCons', ['var', 'ch'], ['listNil']]]]],
                                [['ret', ['bool', True]]], []]]],
                             ['ret', ['bool', False]]],
                    'origin': 'WBS.__remove',
                    'params': ['self', 'task_to_remove', 'current']},
 'WBS_roots_get': {'body': [['ret',
                             ['attr', ['prim', '_root', ['listCons', ['var', 'self'], ['listNil']]], 'children']]],
                   'origin': 'WBS.roots (getter)',
                   'params': ['self']},
 'WBS_roots_set': {'body': [['expr',
                             ['callFn', 15,
                              ['listCons', ['prim', '_root', ['listCons', ['var', 'self'], ['listNil']]],
                               ['listCons', ['var', 'value'], ['listNil']]]]]],
                   'origin': 'WBS.roots (setter)',
                   'params': ['self', 'value']},
 'WBS_subtree': {'body': [['ret',
                           ['callFn', 37,
                            ['listCons', ['var', 'self'],
                             ['listCons', ['callFn', 0, ['listCons', ['var', 'roots'], ['listNil']]],
                              ['listNil']]]]]],
                 'origin': 'WBS.subtree',
                 'params': ['self', 'roots']},
 'WBS_tasks': {'body': [['ret',
                         ['callFn', 16,
                          ['listCons', ['prim', '_root', ['listCons', ['var', 'self'], ['listNil']]], ['listNil']]]]],
               'origin': 'WBS.tasks',
               'params': ['self']},
 'base': 25,
 'funs': ['ChildrenList_remove', 'Task_floordiv', 'WBS_roots_get', 'WBS_roots_set', 'WBS_tasks', 'WBS_getitem',
          'WBS_floordiv', 'WBS_remove_rec', 'WBS_remove', 'WBS_remove_all', 'WBS_clone_tasks',
          'WBS_clone_tasks_link_target', 'WBS_clone_rec', 'WBS_clone', 'WBS_subtree']}


if __name__ == '__main__':
    # python3 extract_wbs.py <task.py> <wbs.py> [<out.lean> | --pinned]: translate (no pinned fallback)
    import sys
    d = extract(open(sys.argv[1]).read(), open(sys.argv[2]).read())
    if len(sys.argv) > 3 and sys.argv[3] == '--pinned':
        import pprint
        pprint.pprint(d, width=118, compact=True)
        sys.exit(0)
    text = to_lean(d)
    if len(sys.argv) > 3:
        with open(sys.argv[3], 'w') as f:
            f.write(text)
    else:
        sys.stdout.write(text)
