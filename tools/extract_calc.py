"""extract_calc: translate the PRE-CHECKS of schedule.py

  _validate_graph_isolation(project)                                       key validate_isolation
  _leaves(task) / _waits_for(leaf)                                         keys leaves / waits_for
  _check_loops(project)                                                    key check_loops
  _check_loops_from_task(task, visited_tasks, validated, waits_for)        key check_loops_from_task
  ForwardScheduler.__check_no_end_dates_in_future(project)  (static)       key Fwd_check_future
  ForwardScheduler.calc(self, wbs) / BackwardScheduler.calc(self, project) keys Fwd_calc / Bwd_calc
  ForwardScheduler.__prepare_tasks / BackwardScheduler.__prepare_tasks     keys Fwd_calc_prepare / Bwd_calc_prepare
        (the same methods extract_pass translates, here with `project.tasks` as the primitive "tasks" - the
         convention of this translator - so that `calc` and everything it calls run on one store)
  every `lambda` passed as an argument                                     keys lambda_0, lambda_1, ... (in source order)

into terms of PyLite (lean/PjVerif/Model/PyLite.lean, pass layer `Expr.evalP` / `Stmt.execP` / `callP`, "calc
constructs").  Same conventions as extract_calendar / extract_schedule / extract_pass (whose translators are reused):
terms are s-expressions, anything outside the subset raises Miss - the translator never guesses.

Every translated function gets a number (its position in the function table `FUNS`, lambdas after the named
functions); a function value is `fnRef k`.  Forms added here:

  expressions  ["idOf", ["var", v]]          `id(v)`, `v` a variable holding a task
               ["prim", name, args]          a library attribute that is NOT defined in schedule.py and whose meaning is
                                             given on the Lean side by the model: `<wbs>.tasks` (prim "tasks"),
                                             `<task>.all_children`, `<task>.all_parents` (PRIMS); `args` = [receiver]
               ["fnRef", k]                  a named module-level function or a closed `lambda` as an argument of a call
               ["callVal", f, args]          `f(args...)`: `f` = ["fnRef", k] for a named function of FUNS, or
                                             ["var", p] for a parameter that holds a function (a parameter without
                                             annotation that the body only calls or passes on)
               ["newBox", l]                 a NEW mutable container: `set()`, `set(l)` as the right-hand side of an
                                             assignment; `[]` / `set()` as the argument for a container parameter
               ["items", ["var", b]]         the items of the container variable `b`, where it is read: `x in b`,
                                             `x not in b`, `for`-clause of a comprehension / of `any(...)` (list
                                             containers only)
               ["listOf", e]                 `list(e)`
               ["flatComp", inner, x, it, c] a comprehension with several `for` clauses,
                                             `[elt for x in it if c for y in it2 ...]`: `inner` is the comprehension
                                             over the remaining clauses (the last one is a ["listComp", ...])
               ["anyComp", elt, x, it, c]    `any(elt for x in it if c)` (one `for` clause)
               ["isSame", a, b]              `a is b`, both task variables
               `not e`, `e1 and e2`, `e1 or e2` on any translated expression (truthiness: `truthP`, stuck outside
               bool / None / number / datetime)
  statements   ["expr", ["callVal", ...]]    a call as a statement
               ["recurse", args]             the call of the function being translated, as a statement (all arguments,
                                             in order; container and function parameters are passed like any other)
               ["boxAppend", ["var", b], e]  `b.append(e)` (list container) / `b.add(e)` (set container)
               ["boxPop", ["var", b]]        `b.pop()` as a statement (list container)

Forms of the two `calc` methods only (`self` is the scheduler):
  expressions  ["field", "start"] / ["field", "end"]   `self.__start` (ForwardScheduler) / `self.__end` (BackwardScheduler)
               ["prim", "clone", [w]]        `<wbs>.clone()` as the right-hand side of an assignment; the target becomes a
                                             WBS variable (the Lean side gives the primitive the model's meaning: the
                                             clone is the same encoded store)
               ["prim", "roots", [w]]        `<wbs>.roots`
               ["range3", lo, hi, step]      `range(lo, hi, step)` as the iterable of a `for`
               ["listIndex", ["var", l], i]  `l[i]`, `l` a local that was assigned `<wbs>.roots`
               ["callVal", ["fnRef", k], args]   also for `self.<static method>(args)` (`__check_no_end_dates_in_future`,
                                             `__prepare_tasks`) and for the pass
                                             `self.__forward_pass(t, d, <ledger>, <calculated>)` /
                                             `self.__backward_pass(...)`: `args` = [t, d]; the ledger and the list
                                             `calculated` are interpreter state, as in extract_pass (k = the table entry
                                             Fwd_pass / Bwd_pass, whose source is translated by extract_pass)
  statements   ["ledgerNew"]                 `<ledger> = _ResourceUsage()`, at the top level of the method (not in a loop)
               ["calcNew"]                   `<calculated> = []`, likewise.  <ledger> / <calculated> are the two names
                                             passed to the pass in the 3rd / 4th position; they must be created before the
                                             first call of the pass and may not occur anywhere else, except for
                                             <ledger> in the result:
               ["ret", ["var", w]]           exactly `return Schedule(<w>, list(self.__resources.values()),
                                             ResourceUsageReport(<ledger>.rows))`, `w` a WBS variable: the result is
                                             the store itself (tasks, resource table, ledger)

Containers.  A `list` / `set` object that is mutated, or shared between the activations of a function, is a BOX of
the interpreter state; a variable holds a reference to it.  The translator keeps a kind for every container variable
(`list` / `set`): parameters annotated `List[...]` / `Set[...]`, locals assigned `set()` / `set(l)`.  A SET box is
represented by the list of the items added (with repetitions): only `x in s`, `x not in s`, `s.add(x)` are accepted on
it (for these the representation is faithful); `len`, iteration, `==` ... are a Miss.  A container variable may
otherwise only be passed on as the argument for a parameter of the same kind.  All other lists (list displays,
comprehensions, `list(...)`, `a + b`, results of calls) are immutable VALUES: no statement can change them (a mutation
of such a variable is a Miss, and `boxAppend` on a value is stuck in PyLite).

`raise RuntimeError(...)`: the arguments may be any expression built from string / number constants, variables,
`<task variable>.id` / `.name`, `str(...)`, `+`, f-strings, tuples, list displays and comprehensions over a variable of
such expressions - their evaluation cannot raise for task objects, and the value is irrelevant (`raiseRuntime`)."""
import ast

import extract_calendar as ec
import extract_schedule as es
import extract_pass as ep
from extract_calendar import Miss, miss, strip_docstring

# the function table: named functions first, in this order; lambdas are appended in source order
MODULE_FUNS = {'_leaves': 'leaves', '_waits_for': 'waits_for', '_check_loops_from_task': 'check_loops_from_task',
               '_validate_graph_isolation': 'validate_isolation', '_check_loops': 'check_loops'}
STATIC_METHODS = {'Fwd_check_future': ('ForwardScheduler', '__check_no_end_dates_in_future'),
                  'Fwd_calc_prepare': ('ForwardScheduler', '__prepare_tasks'),
                  'Bwd_calc_prepare': ('BackwardScheduler', '__prepare_tasks')}
CALC_METHODS = {'Fwd_calc': ('ForwardScheduler', 'calc'), 'Bwd_calc': ('BackwardScheduler', 'calc')}
# the passes: translated by extract_pass (Extracted/PassSrc.lean); here they only have an entry in the function table
PASS_METHODS = {'Fwd_pass': ('ForwardScheduler', '__forward_pass'), 'Bwd_pass': ('BackwardScheduler', '__backward_pass')}
# what `self.<name>(...)` may refer to inside the two `calc` methods
SELF_CALLS = {'Fwd_calc': {'__check_no_end_dates_in_future': 'Fwd_check_future', '__prepare_tasks': 'Fwd_calc_prepare',
                           '__forward_pass': 'Fwd_pass'},
              'Bwd_calc': {'__prepare_tasks': 'Bwd_calc_prepare', '__backward_pass': 'Bwd_pass'}}
CALC_SELF_FIELDS = {'Fwd_calc': {'start'}, 'Bwd_calc': {'end'}}
FUNS = ['leaves', 'waits_for', 'check_loops_from_task', 'validate_isolation', 'check_loops', 'Fwd_check_future',
        'Fwd_calc_prepare', 'Bwd_calc_prepare', 'Fwd_pass', 'Bwd_pass', 'Fwd_calc', 'Bwd_calc']
ORIGIN = {v: k for k, v in MODULE_FUNS.items()}
ORIGIN.update({k: f'{c}.{m}' for k, (c, m) in STATIC_METHODS.items()})
ORIGIN.update({k: f'{c}.{m}' for k, (c, m) in CALC_METHODS.items()})
ORIGIN.update({k: f'{c}.{m}' for k, (c, m) in PASS_METHODS.items()})
LEDGER_CTOR = '_ResourceUsage'

# library attributes that are primitives (meaning: the model's)
TASK_PRIMS = {'all_children', 'all_parents'}
WBS_PRIMS = {'tasks', 'roots'}
TASK_LISTS = {'predecessors', 'children', 'successors'}
TASK_READ = TASK_LISTS | {'start', 'end', 'estimate', 'spent', 'milestone', 'resource', 'min_start'}
MSG_ATTRS = {'id', 'name'}
FIXED = {'id', 'len', 'any', 'set', 'list', 'str', 'Task', 'WBS', 'List', 'Set', 'RuntimeError', 'datetime'}


def ann_kind(a):
    """kind of a parameter from its annotation: task / wbs / list / set / None (no annotation)"""
    n = a.annotation
    if n is None:
        return None
    if isinstance(n, ast.Name) and n.id == 'Task':
        return 'task'
    if isinstance(n, ast.Name) and n.id == 'WBS':
        return 'wbs'
    if isinstance(n, ast.Subscript) and isinstance(n.value, ast.Name) and n.value.id in ('List', 'Set'):
        return 'list' if n.value.id == 'List' else 'set'
    raise Miss(f'annotation of {a.arg}')


class Sig:
    def __init__(self, key, fn, static=False, method=False):
        a = fn.args
        if a.vararg or a.kwarg or a.kwonlyargs or a.posonlyargs or a.defaults:
            raise Miss(f'{fn.name}: signature')
        if fn.returns is not None and not (method and isinstance(fn.returns, ast.Name) and fn.returns.id == 'Schedule'):
            raise Miss(f'{fn.name}: return annotation')
        decos = [d.id for d in fn.decorator_list if isinstance(d, ast.Name)]
        if len(decos) != len(fn.decorator_list) or decos != (['staticmethod'] if static else []):
            raise Miss(f'{fn.name}: decorators')
        self.key = key
        self.fn = fn
        self.self_name = None
        args = list(a.args)
        if method:
            if not args or args[0].annotation is not None:
                raise Miss(f'{fn.name}: self')
            self.self_name = args[0].arg
            args = args[1:]
        a = ast.arguments(posonlyargs=[], args=args, kwonlyargs=[], kw_defaults=[], defaults=[])
        self.params = [x.arg for x in a.args]
        if len(set(self.params)) != len(self.params) or any(p in FIXED or p in MODULE_FUNS for p in self.params):
            raise Miss(f'{fn.name}: parameter names')
        self.kinds = [ann_kind(x) for x in a.args]
        for i, k in enumerate(self.kinds):
            if k is None:
                # a parameter without annotation holds a function: the body may only call it or pass it on
                self.kinds[i] = 'fn'


class CTr(ep.PTr):
    def __init__(self, sig, sigs, lambdas):
        used = {n.id for n in ast.walk(sig.fn) if isinstance(n, ast.Name)} | set(sig.params)
        task_vars = {p for p, k in zip(sig.params, sig.kinds) if k == 'task'}
        super().__init__(getattr(sig, 'self_name', None), set(sig.params), task_vars, used, None,
                         wbs_vars={p for p, k in zip(sig.params, sig.kinds) if k == 'wbs'},
                         self_fields=CALC_SELF_FIELDS.get(sig.key, set()))
        self.sig = sig
        self.self_calls = SELF_CALLS.get(sig.key, {})
        self.ledger_var = self.calc_var = None      # the two state variables of a `calc` method
        self.ledger_ready = self.calc_ready = False
        self.roots_vars = set()                     # locals assigned `<wbs>.roots`
        if sig.key in CALC_METHODS:
            self.find_state_vars()
        self.sigs = sigs                # key -> Sig of every named function
        self.lambdas = lambdas          # list of translated lambdas (shared, appended to)
        self.boxes = {p: k for p, k in zip(sig.params, sig.kinds) if k in ('list', 'set')}
        self.fn_vars = {p for p, k in zip(sig.params, sig.kinds) if k == 'fn'}

    # ---- helpers
    def find_state_vars(self):
        """the names passed to the pass as ledger / `calculated` (the same in every call)"""
        for n in ast.walk(self.sig.fn):
            k = self.self_call_key(n)
            if k in PASS_METHODS:
                if n.keywords or len(n.args) != 4 or not all(isinstance(x, ast.Name) for x in n.args[2:]):
                    miss(n, 'call of the pass')
                lv, cv = n.args[2].id, n.args[3].id
                if (self.ledger_var, self.calc_var) not in ((None, None), (lv, cv)) or lv == cv:
                    miss(n, 'call of the pass: ledger / calculated')
                self.ledger_var, self.calc_var = lv, cv
        for v in (self.ledger_var, self.calc_var):
            if v is not None and (v in self.sig.params or v == self.self_name or v in FIXED or v in MODULE_FUNS):
                raise Miss(f'state variable {v}')

    def self_call_key(self, n):
        if isinstance(n, ast.Call) and isinstance(n.func, ast.Attribute) and isinstance(n.func.value, ast.Name) \
                and self.self_name is not None and n.func.value.id == self.self_name:
            return self.self_calls.get(n.func.attr, '?')
        return None

    def special(self, name):
        return name in self.boxes or name in self.fn_vars or name in self.wbs_vars \
            or name in (self.ledger_var, self.calc_var)

    def box_var(self, n, kind=None):
        return isinstance(n, ast.Name) and isinstance(n.ctx, ast.Load) and n.id in self.boxes \
            and (kind is None or self.boxes[n.id] == kind)

    def builtin(self, n, name, nargs):
        return isinstance(n, ast.Call) and isinstance(n.func, ast.Name) and n.func.id == name and not n.keywords \
            and len(n.args) in nargs and not self.known(name) and name not in self.scoped \
            and not any(isinstance(x, ast.Starred) for x in n.args)

    def fun_key(self, n):
        """the key of the named function `n` refers to, else None"""
        if isinstance(n, ast.Name) and isinstance(n.ctx, ast.Load) and n.id in MODULE_FUNS and not self.known(n.id) \
                and n.id not in self.scoped:
            return MODULE_FUNS[n.id]
        return None

    def is_task_list(self, n):
        """syntactically a list of task objects (used to give loop / comprehension variables the kind `task`; PyLite
        checks dynamically that an attribute is read from an object reference)"""
        if self.task_attr(n, TASK_LISTS | TASK_PRIMS) or self.wbs_attr(n):
            return True
        if isinstance(n, ast.List):
            return all(self.task_var(x) for x in n.elts)
        if isinstance(n, ast.BinOp) and isinstance(n.op, ast.Add):
            return self.is_task_list(n.left) and self.is_task_list(n.right)
        if self.builtin(n, 'list', (1,)):
            return self.is_task_list(n.args[0])
        if isinstance(n, ast.Call) and (self.fun_key(n.func) is not None
                                        or (isinstance(n.func, ast.Name) and n.func.id in self.fn_vars)):
            return True
        if self.box_var(n, 'list'):
            return True
        return False

    def wbs_attr(self, n):
        return isinstance(n, ast.Attribute) and isinstance(n.ctx, ast.Load) and isinstance(n.value, ast.Name) \
            and isinstance(n.value.ctx, ast.Load) and n.value.id in self.wbs_vars and n.attr in WBS_PRIMS

    def iterable(self, n):
        """the iterable of a `for` clause / statement: a list container is read through `items`"""
        if self.box_var(n, 'list'):
            return ['items', ['var', n.id]]
        return self.expr(n)

    # ---- calls
    def call_args(self, n, sig):
        """arguments of a call of the named function `sig`"""
        if n.keywords or len(n.args) != len(sig.params) or any(isinstance(x, ast.Starred) for x in n.args):
            miss(n, f'arguments of {sig.fn.name}')
        out = []
        for x, kind in zip(n.args, sig.kinds):
            if kind in ('list', 'set'):
                if self.box_var(x, kind):
                    out.append(['var', x.id])
                elif kind == 'list' and isinstance(x, ast.List) and not x.elts:
                    out.append(['newBox', ['listNil']])
                elif kind == 'set' and self.builtin(x, 'set', (0,)):
                    out.append(['newBox', ['listNil']])
                else:
                    miss(x, f'argument for the {kind} parameter of {sig.fn.name}')
            elif kind == 'fn':
                out.append(self.fn_value(x))
            elif kind == 'wbs':
                if not (isinstance(x, ast.Name) and x.id in self.wbs_vars):
                    miss(x, 'WBS argument')
                out.append(['var', x.id])
            else:
                out.append(self.expr(x))
        return self.arg_list(out)

    def fn_value(self, n):
        k = self.fun_key(n)
        if k is not None:
            return ['fnRef', FUNS.index(k)]
        if isinstance(n, ast.Name) and isinstance(n.ctx, ast.Load) and n.id in self.fn_vars:
            return ['var', n.id]
        if isinstance(n, ast.Lambda):
            return ['fnRef', self.lift_lambda(n)]
        miss(n, 'function argument')

    def lift_lambda(self, n):
        """a closed lambda with plain parameters becomes an entry of the function table"""
        a = n.args
        if a.vararg or a.kwarg or a.kwonlyargs or a.posonlyargs or a.defaults or not a.args:
            miss(n, 'lambda signature')
        params = [x.arg for x in a.args]
        if len(set(params)) != len(params) or any(p in FIXED or p in MODULE_FUNS for p in params):
            miss(n, 'lambda parameters')
        fake = ast.FunctionDef(name='<lambda>', args=a, body=[ast.Return(value=n.body)], decorator_list=[], returns=None)
        sig = Sig.__new__(Sig)
        sig.key, sig.fn, sig.params = None, fake, params
        sig.kinds = ['task'] * len(params)          # a lambda parameter may be used as a task object
        tr = CTr(sig, self.sigs, self.lambdas)
        body = [['ret', tr.expr(n.body)]]           # closed: the new translator knows the parameters only
        self.lambdas.append({'params': params, 'body': body})
        return len(FUNS) + len(self.lambdas) - 1

    def call(self, n):
        """a call of a named function or of a function-valued parameter; None if `n` is something else"""
        if not isinstance(n, ast.Call):
            return None
        sk = self.self_call_key(n)
        if sk is not None:
            if sk in PASS_METHODS:
                # self.__forward_pass(t, d, <ledger>, <calculated>): the state variables must exist already
                if not (self.ledger_ready and self.calc_ready) or any(isinstance(x, ast.Starred) for x in n.args):
                    miss(n, 'call of the pass before the ledger / calculated are created')
                return ['callVal', ['fnRef', FUNS.index(sk)], self.arg_list([self.expr(n.args[0]), self.expr(n.args[1])])]
            if sk in STATIC_METHODS:
                return ['callVal', ['fnRef', FUNS.index(sk)], self.call_args(n, self.sigs[sk])]
            miss(n, 'call on self')
        k = self.fun_key(n.func)
        if k is not None:
            if k == self.sig.key:
                miss(n, 'the function calls itself in an expression')
            return ['callVal', ['fnRef', FUNS.index(k)], self.call_args(n, self.sigs[k])]
        if isinstance(n.func, ast.Name) and n.func.id in self.fn_vars:
            if n.keywords or any(isinstance(x, ast.Starred) for x in n.args):
                miss(n, 'call of a function parameter')
            for x in n.args:
                if isinstance(x, ast.Name) and self.special(x.id):
                    miss(x, 'argument of a function parameter')
            return ['callVal', ['var', n.func.id], self.arg_list([self.expr(x) for x in n.args])]
        return None

    # ---- expressions
    def expr(self, n):
        if isinstance(n, ast.Name) and isinstance(n.ctx, ast.Load) and (self.special(n.id) or n.id in MODULE_FUNS):
            miss(n, 'a container / function / WBS variable may only occur in the documented positions')
        if isinstance(n, ast.Lambda):
            miss(n, 'lambda outside an argument list')
        c = self.call(n)
        if c is not None:
            return c
        if isinstance(n, ast.Subscript) and isinstance(n.ctx, ast.Load):
            if isinstance(n.value, ast.Name) and n.value.id in self.roots_vars \
                    and not isinstance(n.slice, (ast.Slice, ast.Tuple)):
                return ['listIndex', ['var', n.value.id], self.expr(n.slice)]
            miss(n, 'subscript')
        if self.builtin(n, 'id', (1,)):
            if not self.task_var(n.args[0]):
                miss(n, 'id(...) of a task variable')
            return ['idOf', ['var', n.args[0].id]]
        if self.builtin(n, 'list', (1,)):
            return ['listOf', self.iterable(n.args[0])]
        if self.builtin(n, 'any', (1,)):
            g = n.args[0]
            if not isinstance(g, ast.GeneratorExp) or len(g.generators) != 1:
                miss(n, 'any(...)')
            return self.comp(g.elt, g.generators, 'anyComp')
        if self.builtin(n, 'len', (1,)):
            if isinstance(n.args[0], ast.Name) and self.special(n.args[0].id):
                miss(n, 'len of a container variable')
            return ['len', self.expr(n.args[0])]
        if isinstance(n, ast.Call) and isinstance(n.func, ast.Name) and n.func.id in ('set', 'any', 'id', 'list'):
            miss(n, f'call of {n.func.id}')
        if isinstance(n, ast.ListComp):
            return self.comp(n.elt, n.generators, 'listComp')
        if isinstance(n, (ast.GeneratorExp, ast.SetComp, ast.DictComp)):
            miss(n, 'comprehension')
        if isinstance(n, ast.Attribute) and isinstance(n.ctx, ast.Load):
            if isinstance(n.value, ast.Name) and self.self_name is not None and n.value.id == self.self_name:
                return super().expr(n)      # `self.__f`, f one of the readable fields of this method
            if self.task_attr(n, TASK_PRIMS):
                return ['prim', n.attr, self.arg_list([['var', n.value.id]])]
            if self.wbs_attr(n):
                return ['prim', n.attr, self.arg_list([['var', n.value.id]])]
            if self.task_attr(n, TASK_READ):
                return ['attr', ['var', n.value.id], n.attr]
            miss(n, 'attribute')
        if isinstance(n, ast.Compare) and len(n.ops) == 1:
            l, op, r = n.left, n.ops[0], n.comparators[0]
            if isinstance(op, (ast.In, ast.NotIn)):
                if not self.box_var(r):
                    miss(n, '`in`: the right-hand side must be a container variable')
                e = ['isIn', self.expr(l), ['items', ['var', r.id]]]
                return e if isinstance(op, ast.In) else ['not', e]
            if isinstance(op, (ast.Is, ast.IsNot)) and not ec.is_none(r):
                if self.task_var(l) and self.task_var(r):
                    e = ['isSame', ['var', l.id], ['var', r.id]]
                    return e if isinstance(op, ast.Is) else ['not', e]
                miss(n, '`is`')
        return super().expr(n)

    def comp(self, elt, generators, kind):
        """`[elt for x1 in it1 if c1 for x2 in it2 ...]` (kind listComp) / `any(elt for x in it if c)` (kind anyComp)"""
        g = generators[0]
        if g.is_async or not isinstance(g.target, ast.Name):
            miss(g.iter, 'comprehension')
        x = g.target.id
        if self.special(x) or x in self.scoped or x in FIXED or x in MODULE_FUNS:
            miss(g.iter, 'comprehension variable')
        it = self.iterable(g.iter)              # evaluated before `x` is bound
        over_tasks = self.is_task_list(g.iter)
        saved = (set(self.params), set(self.task_vars))
        self.params = set(self.params) | {x}
        self.task_vars = (self.task_vars | {x}) if over_tasks else (self.task_vars - {x})
        self.scoped.append(x)
        try:
            conds = [self.cond(c) for c in g.ifs] or [['bool', True]]
            c = conds[-1]
            for v in reversed(conds[:-1]):
                c = ['and', v, c]
            if len(generators) > 1:
                if kind != 'listComp':
                    miss(g.iter, 'several `for` clauses')
                return ['flatComp', self.comp(elt, generators[1:], kind), x, it, c]
            e = self.cond(elt) if kind == 'anyComp' else self.expr(elt)
        finally:
            self.scoped.pop()
            self.params, self.task_vars = saved
        return [kind, e, x, it, c]

    # ---- raise
    def harmless(self, n, local=()):
        if isinstance(n, ast.Constant) and isinstance(n.value, (str, int, float)):
            return True
        if isinstance(n, ast.Name):
            return (self.known(n.id) or n.id in local) and isinstance(n.ctx, ast.Load)
        if isinstance(n, ast.Attribute) and isinstance(n.value, ast.Name) and n.attr in MSG_ATTRS:
            return n.value.id in self.task_vars or n.value.id in local
        if isinstance(n, ast.JoinedStr):
            return all(self.harmless(v, local) for v in n.values)
        if isinstance(n, ast.FormattedValue):
            return n.conversion == -1 and n.format_spec is None and self.harmless(n.value, local)
        if self.builtin(n, 'str', (1,)):
            return self.harmless(n.args[0], local)
        if isinstance(n, ast.BinOp) and isinstance(n.op, ast.Add):
            return self.harmless(n.left, local) and self.harmless(n.right, local)
        if isinstance(n, (ast.Tuple, ast.List)) and isinstance(n.ctx, ast.Load):
            return all(self.harmless(v, local) for v in n.elts)
        if isinstance(n, ast.ListComp) and len(n.generators) == 1:
            g = n.generators[0]
            return not g.is_async and not g.ifs and isinstance(g.target, ast.Name) and isinstance(g.iter, ast.Name) \
                and self.known(g.iter.id) and self.harmless(n.elt, tuple(local) + (g.target.id,))
        return False

    # ---- statements
    def target(self, t):
        x = ec.Tr.target(self, t)
        if self.special(x) or x in self.task_vars or x in self.scoped or x in FIXED or x in MODULE_FUNS:
            miss(t, 'assignment to a parameter / container / task variable')
        return x

    def calc_stmt(self, s, in_loop):
        """the statements that only occur in the two `calc` methods; None if `s` is something else"""
        if isinstance(s, ast.Assign) and len(s.targets) == 1 and isinstance(s.targets[0], ast.Name):
            x, v = s.targets[0].id, s.value
            if x in (self.ledger_var, self.calc_var):
                if in_loop:
                    miss(s, 'the ledger / calculated must be created at the top level')
                if x == self.ledger_var and isinstance(v, ast.Call) and isinstance(v.func, ast.Name) \
                        and v.func.id == LEDGER_CTOR and not v.args and not v.keywords and not self.ledger_ready:
                    self.ledger_ready = True
                    return ['ledgerNew']
                if x == self.calc_var and isinstance(v, ast.List) and not v.elts and not self.calc_ready:
                    self.calc_ready = True
                    return ['calcNew']
                miss(s, 'assignment to the ledger / calculated variable')
            fresh = not (self.special(x) or self.known(x) or x in self.task_vars or x in self.scoped or x in FIXED
                         or x in MODULE_FUNS or x == self.self_name)
            if isinstance(v, ast.Call) and isinstance(v.func, ast.Attribute) and v.func.attr == 'clone' \
                    and isinstance(v.func.value, ast.Name) and v.func.value.id in self.wbs_vars:
                if v.args or v.keywords or not fresh or in_loop:
                    miss(s, 'clone')
                e = ['prim', 'clone', self.arg_list([['var', v.func.value.id]])]
                self.wbs_vars.add(x)
                return ['assign', x, e]
            if self.wbs_attr(v) and v.attr == 'roots':
                if not fresh or in_loop:
                    miss(s, 'roots')
                e = self.expr(v)
                self.roots_vars.add(x)
                self.assigned.add(x)
                return ['assign', x, e]
        if isinstance(s, ast.For) and isinstance(s.iter, ast.Call) and isinstance(s.iter.func, ast.Name) \
                and s.iter.func.id == 'range' and not self.known('range') and len(s.iter.args) == 3:
            if s.orelse or s.iter.keywords or any(isinstance(x, ast.Starred) for x in s.iter.args):
                miss(s, 'for-range')
            if not (isinstance(s.target, ast.Name) and isinstance(s.target.ctx, ast.Store)):
                miss(s, 'for target')
            x = s.target.id
            if self.special(x) or x in self.sig.params or x in self.scoped or x in FIXED or x in MODULE_FUNS \
                    or x in self.task_vars or x in self.roots_vars or x == self.self_name:
                miss(s, 'for target')
            it = ['range3'] + [self.expr(a) for a in s.iter.args]
            self.assigned.add(x)
            return ['forIn', x, it, self.block(s.body, True)]
        if isinstance(s, ast.Return) and s.value is not None:
            # return Schedule(<wbs>, list(self.__resources.values()), ResourceUsageReport(<ledger>.rows))
            v = s.value
            ok = isinstance(v, ast.Call) and isinstance(v.func, ast.Name) and v.func.id == 'Schedule' \
                and not v.keywords and len(v.args) == 3 and isinstance(v.args[0], ast.Name) \
                and v.args[0].id in self.wbs_vars and not in_loop and self.ledger_ready
            if ok:
                want = f'list({self.self_name}.__resources.values())'
                ok = ast.unparse(v.args[1]) == want \
                    and ast.unparse(v.args[2]) == f'ResourceUsageReport({self.ledger_var}.rows)'
            if not ok:
                miss(s, 'return of calc')
            return ['ret', ['var', v.args[0].id]]
        return None

    def stmt(self, s, in_loop):
        if self.sig.key in CALC_METHODS:
            r = self.calc_stmt(s, in_loop)
            if r is not None:
                return r
        if isinstance(s, ast.Assign) and all(isinstance(t, ast.Attribute) for t in s.targets):
            # `t.a = t.b = e` on a task variable: as in extract_pass
            if self.sig.key not in ('Fwd_calc_prepare', 'Bwd_calc_prepare'):
                miss(s, 'attribute assignment')
            return ep.PTr.stmt(self, s, in_loop)
        if isinstance(s, ast.Assign) and len(s.targets) == 1 and isinstance(s.targets[0], ast.Name) \
                and self.builtin(s.value, 'set', (0, 1)):
            # `x = set()` / `x = set(l)`: a new set container; `x` is (and stays) a set variable
            x = s.targets[0].id
            if (self.special(x) and self.boxes.get(x) != 'set') or x in self.sig.params or x in self.task_vars \
                    or x in self.scoped or x in FIXED or x in MODULE_FUNS or (self.known(x) and x not in self.boxes):
                miss(s, 'set variable')
            init = ['listNil'] if not s.value.args else self.expr(s.value.args[0])
            self.boxes[x] = 'set'
            self.assigned.add(x)
            return ['assign', x, ['newBox', init]]
        if isinstance(s, (ast.Assign, ast.AnnAssign, ast.AugAssign)):
            tg = s.targets if isinstance(s, ast.Assign) else [s.target]
            if len(tg) != 1 or not isinstance(tg[0], ast.Name):
                miss(s, 'assignment')
            # a plain local: its value must not be a container (containers are created by `set(...)` only)
            if isinstance(s, ast.AugAssign):
                miss(s, 'augmented assignment')
            return ec.Tr.stmt(self, s, in_loop)
        if isinstance(s, ast.For):
            if s.orelse:
                miss(s, 'for-else')
            if not (isinstance(s.target, ast.Name) and isinstance(s.target.ctx, ast.Store)):
                miss(s, 'for target')
            x = s.target.id
            if self.special(x) or x in self.sig.params or x in self.scoped or x in FIXED or x in MODULE_FUNS:
                miss(s, 'for target')
            if self.box_var(s.iter):
                miss(s, 'for over a container variable')      # it could be changed by the body
            it = self.expr(s.iter)
            if self.is_task_list(s.iter):
                self.task_vars.add(x)
            elif x in self.task_vars:
                miss(s, 'for target')
            self.assigned.add(x)
            return ['forIn', x, it, self.block(s.body, True)]
        if isinstance(s, ast.Expr) and isinstance(s.value, ast.Call):
            c = s.value
            if self.fun_key(c.func) == self.sig.key and self.sig.key is not None:
                return ['recurse', self.call_args(c, self.sig)]
            e = self.call(c)
            if e is not None:
                return ['expr', e]
            f = c.func
            if isinstance(f, ast.Attribute) and not c.keywords and self.box_var(f.value):
                b, kind = f.value.id, self.boxes[f.value.id]
                if (kind, f.attr) in (('list', 'append'), ('set', 'add')) and len(c.args) == 1:
                    return ['boxAppend', ['var', b], self.expr(c.args[0])]
                if (kind, f.attr) == ('list', 'pop') and not c.args:
                    return ['boxPop', ['var', b]]
            miss(s, 'expression statement')
        if isinstance(s, ast.Raise):
            e = s.exc
            if s.cause is None and isinstance(e, ast.Call) and isinstance(e.func, ast.Name) \
                    and e.func.id == 'RuntimeError' and not e.keywords and all(self.harmless(a) for a in e.args):
                return ['raiseRuntime']
            miss(s, 'raise')
        if isinstance(s, (ast.If, ast.Return, ast.Pass, ast.Continue)):
            return ec.Tr.stmt(self, s, in_loop)
        miss(s, 'statement')


def check_module(tree):
    ep.check_module(tree)
    for n in ast.walk(tree):
        if isinstance(n, (ast.FunctionDef, ast.ClassDef, ast.AsyncFunctionDef)) and n.name in FIXED:
            raise Miss(f'{n.name} is redefined')
        if isinstance(n, ast.Name) and isinstance(n.ctx, (ast.Store, ast.Del)) and (n.id in FIXED or n.id in MODULE_FUNS):
            raise Miss(f'{n.id} is redefined')
        if isinstance(n, (ast.Global, ast.Nonlocal)):
            raise Miss('global / nonlocal')
    typing = set()
    for n in tree.body:
        if isinstance(n, ast.ImportFrom) and n.module == 'typing' and n.level == 0:
            typing |= {a.name for a in n.names if a.asname is None}
        elif isinstance(n, (ast.Import, ast.ImportFrom)):
            for a in n.names:
                if (a.asname or a.name) in (FIXED - {'Task', 'WBS', 'List', 'Set', 'datetime'}) | set(MODULE_FUNS):
                    raise Miss(f'{a.name} is imported')
    if not {'List', 'Set'} <= typing:
        raise Miss('from typing import List, Set')


def check_classes(tree):
    """`Schedule(schedule, resources, resource_usage)`, `ResourceUsageReport(rows)` and `_ResourceUsage()` are what
    the translation of `return Schedule(...)` / of `_ResourceUsage()` assumes"""
    sch = es.class_of(tree, 'Schedule')
    fields = [x.target.id for x in sch.body if isinstance(x, ast.AnnAssign) and isinstance(x.target, ast.Name)]
    if fields != ['schedule', 'resources', 'resource_usage'] or sch.bases or len(sch.decorator_list) != 1 \
            or ast.unparse(sch.decorator_list[0]).replace(' ', '') != 'dataclass(frozen=True)' \
            or any(isinstance(x, (ast.FunctionDef, ast.AsyncFunctionDef)) for x in sch.body):
        raise Miss('Schedule: not the expected dataclass')
    es.translate_ledger(tree)       # `_ResourceUsage.__init__` is `self.rows = []`
    for n in ast.walk(tree):
        if isinstance(n, ast.Name) and isinstance(n.ctx, (ast.Store, ast.Del)) \
                and n.id in ('Schedule', 'ResourceUsageReport', LEDGER_CTOR, 'range'):
            raise Miss(f'{n.id} is redefined')


def module_function(tree, name):
    found = [f for f in tree.body if isinstance(f, (ast.FunctionDef, ast.AsyncFunctionDef)) and f.name == name]
    if len(found) != 1 or not isinstance(found[0], ast.FunctionDef):
        raise Miss(f'{name}: {len(found)} definitions')
    for n in ast.walk(tree):
        if n is not found[0] and isinstance(n, (ast.FunctionDef, ast.AsyncFunctionDef, ast.ClassDef)) and n.name == name:
            raise Miss(f'{name} is defined twice')
    return found[0]


def no_nested_def(fn):
    for n in ast.walk(fn):
        if isinstance(n, (ast.FunctionDef, ast.AsyncFunctionDef, ast.ClassDef)) and n is not fn:
            raise Miss(f'{fn.name}: nested definition')


def extract(schedule_src):
    tree = ast.parse(schedule_src)
    check_module(tree)
    sigs = {}
    for name, key in MODULE_FUNS.items():
        sigs[key] = Sig(key, module_function(tree, name))
    for key, (cls, method) in STATIC_METHODS.items():
        sigs[key] = Sig(key, ec.method_of(tree, cls, method), static=True)
    for key, (cls, method) in CALC_METHODS.items():
        sigs[key] = Sig(key, ec.method_of(tree, cls, method), method=True)
        if sigs[key].kinds != ['wbs']:
            raise Miss(f'{cls}.{method}: parameters')
    for key, (cls, method) in PASS_METHODS.items():
        ep.extract_method(tree, cls, method)        # the signature the calls rely on (checked by extract_pass)
    for cls in ('ForwardScheduler', 'BackwardScheduler'):
        es.class_of(tree, cls)
    check_classes(tree)
    lambdas = []
    d = {}
    for key in FUNS:
        if key in PASS_METHODS:
            continue
        sig = sigs[key]
        no_nested_def(sig.fn)
        tr = CTr(sig, sigs, lambdas)
        body = tr.block(strip_docstring(sig.fn.body), False)
        # a function parameter may only be called or passed on: `expr` rejects any other occurrence; a container
        # parameter is never assigned (`target`)
        d[key] = {'params': sig.params, 'kinds': sig.kinds, 'body': body}
    for i, lam in enumerate(lambdas):
        d[f'lambda_{i}'] = lam
    d['funs'] = FUNS + [f'lambda_{i}' for i in range(len(lambdas))]
    return d


# ---- Lean output

def lean_expr(e):
    k = e[0]
    if k == 'fnRef':
        n = e[1]
        return f'(.fnRef fn_{FUNS[n]})' if n < len(FUNS) else f'(.fnRef fn_lambda_{n - len(FUNS)})'
    if k == 'field':
        return ec.lean_expr(e)
    if k in ('range3', 'listIndex'):
        return f'(.{k} ' + ' '.join(lean_expr(x) for x in e[1:]) + ')'
    if k == 'prim':
        return f'(.prim {ec.lean_str(e[1])} {lean_expr(e[2])})'
    if k in ('idOf', 'callVal', 'newBox', 'items', 'listOf', 'isSame'):
        return f'(.{k} ' + ' '.join(lean_expr(x) for x in e[1:]) + ')'
    if k in ('flatComp', 'anyComp', 'listComp'):
        return f'(.{k} {lean_expr(e[1])} {ec.lean_str(e[2])} {lean_expr(e[3])} {lean_expr(e[4])})'
    if k in ('listCons', 'len', 'max', 'max3', 'maxList', 'minList', 'min', 'sum', 'isNone', 'isNotNone', 'not', 'and',
             'or', 'ite', 'isIn'):
        return f'(.{k} ' + ' '.join(lean_expr(x) for x in e[1:]) + ')'
    if k == 'attr':
        return f'(.attr {lean_expr(e[1])} {ec.lean_str(e[2])})'
    if k in ('cmp', 'bin'):
        return f'(.{k} .{e[1]} {lean_expr(e[2])} {lean_expr(e[3])})'
    if k in ('now', 'listNil', 'datetime', 'none', 'num', 'bool', 'var'):
        return ep.lean_expr(e)
    raise Miss(f'lean_expr {e!r}')


def lean_block(b, ind):
    if not b:
        return '[]'
    pad = ' ' * (ind + 1)
    return '[' + (',\n' + pad).join(lean_stmt(s, ind + 1) for s in b) + ']'


def lean_stmt(s, ind):
    k = s[0]
    pad = ' ' * (ind + 2)
    if k == 'assign':
        return f'.assign {ec.lean_str(s[1])} {lean_expr(s[2])}'
    if k == 'ifElse':
        return f'.ifElse {lean_expr(s[1])}\n{pad}{lean_block(s[2], ind + 2)}\n{pad}{lean_block(s[3], ind + 2)}'
    if k == 'forIn':
        return f'.forIn {ec.lean_str(s[1])} {lean_expr(s[2])}\n{pad}{lean_block(s[3], ind + 2)}'
    if k in ('ret', 'expr', 'recurse', 'boxPop'):
        return f'.{k} {lean_expr(s[1])}'
    if k == 'boxAppend':
        return f'.boxAppend {lean_expr(s[1])} {lean_expr(s[2])}'
    if k in ('raiseRuntime', 'continue', 'pass', 'ledgerNew', 'calcNew'):
        return f'.{k}'
    if k == 'setAttr':
        return f'.setAttr {lean_expr(s[1])} {ec.lean_str(s[2])} {lean_expr(s[3])}'
    raise Miss(f'lean_stmt {s!r}')


def to_lean(d):
    out = ('/- GENERATED by tools/extract.py (extract_calc) from /repo/src/pjplan/schedule.py — '
           'do not edit.  Re-checked by `lake build`. -/\n'
           'import PjVerif.Model.PyLite\nnamespace Pj.Extracted\n\n'
           '/-! the function table: `fnRef k` / `Atom.fn k` is the k-th function below -/\n')
    for i, key in enumerate(d['funs']):
        out += f'def fn_{key} : Nat := {i}\n'
    out += '\n'
    for key in d['funs']:
        if key in PASS_METHODS:
            continue                    # translated by extract_pass: Extracted/PassSrc.lean, `src_<key>`
        m = d[key]
        params = ', '.join('"' + p + '"' for p in m['params'])
        what = f'`{ORIGIN[key]}({", ".join(m["params"])})`' if key in ORIGIN else \
            f'the `lambda {", ".join(m["params"])}: ...` number {key.split("_")[1]} (in source order)'
        out += (f'/-- schedule.py: {what} -/\n'
                f'def src_{key} : List PyLite.Stmt :=\n  {lean_block(m["body"], 2)}\n\n'
                f'def src_{key}_params : List String := [{params}]\n\n')
    return out + 'end Pj.Extracted\n'


# the translation of the source as of the last successful check (fallback when extract() raises Miss)
PINNED = {'Bwd_calc': {'body': [['expr', ['callVal', ['fnRef', 3], ['listCons', ['var', 'project'], ['listNil']]]],
                       ['expr', ['callVal', ['fnRef', 4], ['listCons', ['var', 'project'], ['listNil']]]],
                       ['assign', 'backward', ['prim', 'clone', ['listCons', ['var', 'project'], ['listNil']]]],
                       ['expr', ['callVal', ['fnRef', 7], ['listCons', ['var', 'backward'], ['listNil']]]],
                       ['ledgerNew'],
                       ['assign', 'backward_roots',
                        ['prim', 'roots', ['listCons', ['var', 'backward'], ['listNil']]]],
                       ['calcNew'],
                       ['forIn', 'i',
                        ['range3', ['bin', 'sub', ['len', ['var', 'backward_roots']], ['num', '1']], ['num', '-1'],
                         ['num', '-1']],
                        [['expr',
                          ['callVal', ['fnRef', 9],
                           ['listCons', ['listIndex', ['var', 'backward_roots'], ['var', 'i']],
                            ['listCons', ['field', 'end'], ['listNil']]]]]]],
                       ['ret', ['var', 'backward']]],
              'kinds': ['wbs'],
              'params': ['project']},
 'Bwd_calc_prepare': {'body': [['forIn', 't', ['prim', 'tasks', ['listCons', ['var', 'project'], ['listNil']]],
                                [['ifElse', ['cmp', 'gt', ['len', ['attr', ['var', 't'], 'children']], ['num', '0']],
                                  [['assign', '_chain_value', ['none']],
                                   ['setAttr', ['var', 't'], 'start', ['var', '_chain_value']],
                                   ['setAttr', ['var', 't'], 'end', ['var', '_chain_value']],
                                   ['setAttr', ['var', 't'], 'estimate', ['var', '_chain_value']],
                                   ['setAttr', ['var', 't'], 'spent', ['var', '_chain_value']]],
                                  []]]]],
                      'kinds': ['wbs'],
                      'params': ['project']},
 'Fwd_calc': {'body': [['expr', ['callVal', ['fnRef', 3], ['listCons', ['var', 'wbs'], ['listNil']]]],
                       ['expr', ['callVal', ['fnRef', 4], ['listCons', ['var', 'wbs'], ['listNil']]]],
                       ['expr', ['callVal', ['fnRef', 5], ['listCons', ['var', 'wbs'], ['listNil']]]],
                       ['assign', 'forward', ['prim', 'clone', ['listCons', ['var', 'wbs'], ['listNil']]]],
                       ['expr', ['callVal', ['fnRef', 6], ['listCons', ['var', 'forward'], ['listNil']]]],
                       ['ledgerNew'], ['calcNew'],
                       ['forIn', 't', ['prim', 'roots', ['listCons', ['var', 'forward'], ['listNil']]],
                        [['expr',
                          ['callVal', ['fnRef', 8],
                           ['listCons', ['var', 't'], ['listCons', ['field', 'start'], ['listNil']]]]]]],
                       ['ret', ['var', 'forward']]],
              'kinds': ['wbs'],
              'params': ['wbs']},
 'Fwd_calc_prepare': {'body': [['forIn', 't', ['prim', 'tasks', ['listCons', ['var', 'project'], ['listNil']]],
                                [['ifElse', ['cmp', 'gt', ['len', ['attr', ['var', 't'], 'children']], ['num', '0']],
                                  [['assign', '_chain_value', ['none']],
                                   ['setAttr', ['var', 't'], 'start', ['var', '_chain_value']],
                                   ['setAttr', ['var', 't'], 'end', ['var', '_chain_value']],
                                   ['setAttr', ['var', 't'], 'estimate', ['var', '_chain_value']],
                                   ['setAttr', ['var', 't'], 'spent', ['var', '_chain_value']]],
                                  []]]]],
                      'kinds': ['wbs'],
                      'params': ['project']},
 'Fwd_check_future': {'body': [['assign', 'now', ['now']],
                               ['forIn', 't', ['prim', 'tasks', ['listCons', ['var', 'project'], ['listNil']]],
                                [['ifElse',
                                  ['and', ['isNotNone', ['attr', ['var', 't'], 'end']],
                                   ['cmp', 'gt', ['attr', ['var', 't'], 'end'], ['var', 'now']]],
                                  [['raiseRuntime']], []]]]],
                      'kinds': ['wbs'],
                      'params': ['project']},
 'check_loops': {'body': [['assign', 'validated', ['newBox', ['listNil']]],
                          ['forIn', 't', ['prim', 'tasks', ['listCons', ['var', 'project'], ['listNil']]],
                           [['expr',
                             ['callVal', ['fnRef', 2],
                              ['listCons', ['var', 't'],
                               ['listCons', ['newBox', ['listNil']],
                                ['listCons', ['var', 'validated'], ['listCons', ['fnRef', 12], ['listNil']]]]]]]]],
                          ['assign', 'validated', ['newBox', ['listNil']]],
                          ['forIn', 't', ['prim', 'tasks', ['listCons', ['var', 'project'], ['listNil']]],
                           [['ifElse', ['cmp', 'eq', ['len', ['attr', ['var', 't'], 'children']], ['num', '0']],
                             [['expr',
                               ['callVal', ['fnRef', 2],
                                ['listCons', ['var', 't'],
                                 ['listCons', ['newBox', ['listNil']],
                                  ['listCons', ['var', 'validated'], ['listCons', ['fnRef', 1], ['listNil']]]]]]]],
                             []]]]],
                 'kinds': ['wbs'],
                 'params': ['project']},
 'check_loops_from_task': {'body': [['ifElse', ['isIn', ['idOf', ['var', 'task']], ['items', ['var', 'validated']]],
                                     [['ret', ['none']]], []],
                                    ['ifElse',
                                     ['anyComp', ['isSame', ['var', 't'], ['var', 'task']], 't',
                                      ['items', ['var', 'visited_tasks']], ['bool', True]],
                                     [['raiseRuntime']], []],
                                    ['boxAppend', ['var', 'visited_tasks'], ['var', 'task']],
                                    ['forIn', 's',
                                     ['callVal', ['var', 'waits_for'], ['listCons', ['var', 'task'], ['listNil']]],
                                     [['recurse',
                                       ['listCons', ['var', 's'],
                                        ['listCons', ['var', 'visited_tasks'],
                                         ['listCons', ['var', 'validated'],
                                          ['listCons', ['var', 'waits_for'], ['listNil']]]]]]]],
                                    ['boxPop', ['var', 'visited_tasks']],
                                    ['boxAppend', ['var', 'validated'], ['idOf', ['var', 'task']]]],
                           'kinds': ['task', 'list', 'set', 'fn'],
                           'params': ['task', 'visited_tasks', 'validated', 'waits_for']},
 'funs': ['leaves', 'waits_for', 'check_loops_from_task', 'validate_isolation', 'check_loops', 'Fwd_check_future',
          'Fwd_calc_prepare', 'Bwd_calc_prepare', 'Fwd_pass', 'Bwd_pass', 'Fwd_calc', 'Bwd_calc', 'lambda_0'],
 'lambda_0': {'body': [['ret', ['attr', ['var', 'x'], 'predecessors']]], 'params': ['x']},
 'leaves': {'body': [['ifElse', ['cmp', 'eq', ['len', ['attr', ['var', 'task'], 'children']], ['num', '0']],
                      [['ret', ['listCons', ['var', 'task'], ['listNil']]]], []],
                     ['ret',
                      ['listComp', ['var', 't'], 't',
                       ['prim', 'all_children', ['listCons', ['var', 'task'], ['listNil']]],
                       ['cmp', 'eq', ['len', ['attr', ['var', 't'], 'children']], ['num', '0']]]]],
            'kinds': ['task'],
            'params': ['task']},
 'validate_isolation': {'body': [['assign', 'members',
                                  ['newBox',
                                   ['listComp', ['idOf', ['var', 'task']], 'task',
                                    ['prim', 'tasks', ['listCons', ['var', 'project'], ['listNil']]],
                                    ['bool', True]]]],
                                 ['forIn', 't', ['prim', 'tasks', ['listCons', ['var', 'project'], ['listNil']]],
                                  [['forIn', 'pr', ['attr', ['var', 't'], 'predecessors'],
                                    [['ifElse',
                                      ['and',
                                       ['not', ['isIn', ['idOf', ['var', 'pr']], ['items', ['var', 'members']]]],
                                       ['or', ['not', ['attr', ['var', 'pr'], 'start']],
                                        ['not', ['attr', ['var', 'pr'], 'end']]]],
                                      [['raiseRuntime']], []]]]]]],
                        'kinds': ['wbs'],
                        'params': ['project']},
 'waits_for': {'body': [['ret',
                         ['flatComp',
                          ['flatComp',
                           ['listComp', ['var', 'w'], 'w',
                            ['callVal', ['fnRef', 0], ['listCons', ['var', 'p'], ['listNil']]], ['bool', True]],
                           'p', ['attr', ['var', 'x'], 'predecessors'], ['bool', True]],
                          'x',
                          ['bin', 'add', ['listCons', ['var', 'leaf'], ['listNil']],
                           ['listOf', ['prim', 'all_parents', ['listCons', ['var', 'leaf'], ['listNil']]]]],
                          ['bool', True]]]],
               'kinds': ['task'],
               'params': ['leaf']}}


if __name__ == '__main__':
    # python3 extract_calc.py <schedule.py> [<out.lean> | --pinned]: translate (no pinned fallback)
    import sys
    d = extract(open(sys.argv[1]).read())
    if len(sys.argv) > 2 and sys.argv[2] == '--pinned':
        import pprint
        pprint.pprint(d, width=118, compact=True)
        sys.exit(0)
    text = to_lean(d)
    if len(sys.argv) > 2:
        with open(sys.argv[2], 'w') as f:
            f.write(text)
    else:
        sys.stdout.write(text)
